// C18: eigenvalue ordering primitive.  Real code: Spectra::argsort<Scalar>, Spectra::SortEigenvalue<T, Rule>,
// SortingTarget<T, Rule> instantiated with sym::Real and std::complex<sym::Real>; std::sort runs natively and
// every comparison of two symbolic keys is a fork decided by the solver.
#include "symx_eigen.h"
#include <Spectra/Util/SelectionRule.h>

using namespace Spectra;
using sym::Real;
using symx::CReal;
using symx::CVec;
using symx::RVec;

static const char* rule_name(SortRule r)
{
    switch (r)
    {
        case SortRule::LargestMagn: return "LargestMagn";
        case SortRule::LargestReal: return "LargestReal";
        case SortRule::LargestImag: return "LargestImag";
        case SortRule::LargestAlge: return "LargestAlge";
        case SortRule::SmallestMagn: return "SmallestMagn";
        case SortRule::SmallestReal: return "SmallestReal";
        case SortRule::SmallestImag: return "SmallestImag";
        case SortRule::SmallestAlge: return "SmallestAlge";
        case SortRule::BothEnds: return "BothEnds";
    }
    return "?";
}
static const SortRule all_rules[] = {SortRule::LargestMagn, SortRule::LargestReal, SortRule::LargestImag,
                                     SortRule::LargestAlge, SortRule::SmallestMagn, SortRule::SmallestReal,
                                     SortRule::SmallestImag, SortRule::SmallestAlge, SortRule::BothEnds};

static bool is_perm(const std::vector<Eigen::Index>& ind, int len)
{
    if ((int) ind.size() != len)
        return false;
    std::vector<int> seen(len, 0);
    for (auto i : ind)
    {
        if (i < 0 || i >= len || seen[i])
            return false;
        seen[i] = 1;
    }
    return true;
}

// reference key, written independently of the library: smaller key = earlier
static Real ref_key_real(SortRule r, const Real& x)
{
    switch (r)
    {
        case SortRule::LargestMagn: return -sym::abs(x);
        case SortRule::LargestAlge:
        case SortRule::BothEnds: return -x;
        case SortRule::SmallestMagn: return sym::abs(x);
        case SortRule::SmallestAlge: return x;
        default: throw std::logic_error("no key");
    }
}

static void real_case(SortRule rule, int len, int extra)
{
    // vector longer than len: entries beyond len must not influence nor be indexed
    RVec v = symx::fresh_vec("v", len + extra);
    bool supported = rule == SortRule::LargestMagn || rule == SortRule::LargestAlge || rule == SortRule::SmallestMagn ||
        rule == SortRule::SmallestAlge || rule == SortRule::BothEnds;
    std::vector<Eigen::Index> ind;
    try
    {
        ind = argsort(rule, v, (Eigen::Index) len);
    }
    catch (const std::invalid_argument&)
    {
        sym::expect("unsupported-rule-rejected", !supported, "supported rule threw invalid_argument");
        sym::witness("end");
        return;
    }
    if (!supported)
    {
        sym::fail("unsupported-rule-rejected", std::string("argsort accepted rule ") + rule_name(rule) + " for a real vector");
        return;
    }
    sym::pass("unsupported-rule-rejected");
    bool perm = is_perm(ind, len);
    sym::expect("permutation", perm, "result is not a permutation of 0..len-1");
    if (!perm)
        return;
    if (rule != SortRule::BothEnds)
    {
        for (int i = 0; i + 1 < len; i++)
            sym::check("ordered[" + std::to_string(i) + "]", sym::le(ref_key_real(rule, v[ind[i]]), ref_key_real(rule, v[ind[i + 1]])));
    }
    else
    {
        // for every k the first k positions hold the ceil(k/2) largest and floor(k/2) smallest values
        for (int k = 1; k <= len; k++)
        {
            std::vector<int> top, bot, cls(len, 0);
            for (int i = 0; i < k; i++)
            {
                if (i % 2 == 0)
                {
                    top.push_back(ind[i]);
                    cls[ind[i]] = 1;
                }
                else
                {
                    bot.push_back(ind[i]);
                    cls[ind[i]] = 2;
                }
            }
            z3::expr all = sym::btrue();
            for (int t : top)
                for (int o = 0; o < len; o++)
                    if (cls[o] != 1)
                        all = all && sym::le(v[o], v[t]);
            for (int b : bot)
                for (int o = 0; o < len; o++)
                    if (cls[o] != 2)
                        all = all && sym::le(v[b], v[o]);
            sym::check("bothends[k=" + std::to_string(k) + "]", all);
        }
    }
    sym::witness("end");
}

// complex: SortEigenvalue<complex, Rule> is what the general solvers instantiate
template <SortRule Rule>
static void complex_case(int len)
{
    CVec v(len);
    for (int i = 0; i < len; i++)
        v[i] = CReal(sym::fresh("re_" + std::to_string(i)), sym::fresh("im_" + std::to_string(i)));
    SortEigenvalue<CReal, Rule> sorting(v.data(), len);
    std::vector<Eigen::Index> ind = sorting.index();
    bool perm = is_perm(ind, len);
    sym::expect("permutation", perm, "result is not a permutation");
    if (!perm)
        return;
    auto key = [&](int i) -> Real {
        const CReal& x = v[i];
        switch (Rule)
        {
            case SortRule::LargestMagn: return -(x.real() * x.real() + x.imag() * x.imag());  // monotone in |x|
            case SortRule::SmallestMagn: return x.real() * x.real() + x.imag() * x.imag();
            case SortRule::LargestReal: return -x.real();
            case SortRule::SmallestReal: return x.real();
            case SortRule::LargestImag: return -sym::abs(x.imag());
            case SortRule::SmallestImag: return sym::abs(x.imag());
            default: throw std::logic_error("no key");
        }
    };
    for (int i = 0; i + 1 < len; i++)
        sym::check("ordered[" + std::to_string(i) + "]", sym::le(key(ind[i]), key(ind[i + 1])));
    sym::witness("end");
}

int main(int argc, char** argv)
{
    std::vector<sym::Case> cases;
    int maxlen = 6;
    for (SortRule r : all_rules)
        for (int len = 0; len <= maxlen; len++)
            cases.push_back({std::string("argsort/real/") + rule_name(r) + "/len" + std::to_string(len), [r, len]() { real_case(r, len, 0); }});
    for (SortRule r : all_rules)
        cases.push_back({std::string("argsort/real-prefix/") + rule_name(r) + "/len3of5", [r]() { real_case(r, 3, 2); }});
    for (int len = 0; len <= 5; len++)
    {
        std::string l = "/len" + std::to_string(len);
        cases.push_back({"sorteig/complex/LargestMagn" + l, [len]() { complex_case<SortRule::LargestMagn>(len); }});
        cases.push_back({"sorteig/complex/SmallestMagn" + l, [len]() { complex_case<SortRule::SmallestMagn>(len); }});
        cases.push_back({"sorteig/complex/LargestReal" + l, [len]() { complex_case<SortRule::LargestReal>(len); }});
        cases.push_back({"sorteig/complex/SmallestReal" + l, [len]() { complex_case<SortRule::SmallestReal>(len); }});
        cases.push_back({"sorteig/complex/LargestImag" + l, [len]() { complex_case<SortRule::LargestImag>(len); }});
        cases.push_back({"sorteig/complex/SmallestImag" + l, [len]() { complex_case<SortRule::SmallestImag>(len); }});
    }
    return sym::run_main(argc, argv, cases);
}
