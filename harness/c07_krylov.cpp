// C07: Krylov factorization invariant, real Arnoldi / Lanczos code (init, factorize_from, expand_basis, compress_H, compress_V,
// ArnoldiOp inner products), one inductive step from an arbitrary valid state (DESIGN.md C07).
// Pre-states are constraint-free: a fixed rational orthogonal frame Qc, A = Qc * Ahat * Qc' with Ahat symbolic in the Krylov zero
// pattern, V_k = Qc[:, :k], H_k = Ahat[:k,:k], f = beta * Qc[:,k], beta a rational chosen per threshold branch.
#include "symx_eigen.h"
#include <Spectra/LinAlg/UpperHessenbergQR.h>

using sym::Real;
using symx::RMat;
using symx::RVec;

// rotation contract K5 (as in c08_qr.cpp) for the compress cases
static int g_rot_calls = 0;
namespace Spectra {
template <>
void UpperHessenbergQR<Real>::compute_rotation(const Real& x, const Real& y, Real& r, Real& c, Real& s)
{
    g_rot_calls++;
    if (!y.is_sym() && y.value() == 0.0)
    {
        c = x.is_sym() ? sym::ite(sym::lt(x, Real(0)), Real(-1), Real(1)) : Real(x.value() < 0 ? -1.0 : 1.0);
        s = Real(0);
        r = sym::abs(x);
        return;
    }
    std::string k = std::to_string(g_rot_calls);
    c = sym::fresh("rc" + k);
    s = sym::fresh("rs" + k);
    r = sym::fresh("rr" + k, sym::NONNEG);
    sym::assume(sym::eq(c * c + s * s, Real(1)));
    sym::assume(sym::eq(c * x - s * y, r));
    sym::assume(sym::eq(s * x + c * y, Real(0)));
}
}  // namespace Spectra

#include <Spectra/Util/SimpleRandom.h>
namespace Spectra {
// environment stub: a draw of the internal generator is an arbitrary value in [-0.5, 0.5]; here the real generator state is
// advanced by the real code and the draw is mapped to a small dyadic rational so that restart directions stay exact
template <>
struct RandomScalar<Real>
{
    static Real run(long& seed)
    {
        seed = next_long_rand(seed);
        return sym::rational((seed % 9) - 4, 8);
    }
};
}  // namespace Spectra
#include <Spectra/LinAlg/Lanczos.h>
#include <Spectra/LinAlg/Arnoldi.h>

using namespace Spectra;

struct MatOp
{
    using Scalar = Real;
    RMat A;
    mutable long applied = 0;
    Eigen::Index rows() const { return A.rows(); }
    Eigen::Index cols() const { return A.cols(); }
    void perform_op(const Real* x, Real* y) const
    {
        applied++;
        // C13: the user's operator must be handed valid, distinct (non-overlapping) length-n input and output buffers
        const Eigen::Index n = A.rows();
        bool ok = x != nullptr && y != nullptr && (x + n <= y || y + n <= x);
        sym::expect("operator is handed valid, distinct input and output buffers", ok, x == y ? "x_in == y_out" : "null or overlapping buffers");
        if (!ok)
            sym::cut("aliased operator buffers");
        Eigen::Map<const RVec> xin(x, A.cols());
        Eigen::Map<RVec> yout(y, A.rows());
        yout.noalias() = A * xin;
    }
};
struct BMatOp  // B operator of the generalized modes (y = B x)
{
    using Scalar = Real;
    RMat B;
    mutable long applied = 0;
    void perform_op(const Real* x, Real* y) const
    {
        applied++;
        const Eigen::Index n = B.rows();
        bool ok = x != nullptr && y != nullptr && (x + n <= y || y + n <= x);
        sym::expect("B operator is handed valid, distinct input and output buffers", ok, x == y ? "x_in == y_out" : "null or overlapping buffers");
        if (!ok)
            sym::cut("aliased operator buffers");
        Eigen::Map<const RVec> xin(x, B.cols());
        Eigen::Map<RVec> yout(y, B.rows());
        yout.noalias() = B * xin;
    }
};

static RMat frame(int n)
{
    RMat Q(n, n);
    auto R = [](long p, long q) { return sym::rational(p, q); };
    if (n == 2)
        Q << R(3, 5), R(4, 5), R(4, 5), R(-3, 5);
    else if (n == 3)
        Q << R(1, 3), R(2, 3), R(2, 3), R(2, 3), R(1, 3), R(-2, 3), R(2, 3), R(-2, 3), R(1, 3);
    else if (n == 4)
        Q << R(1, 2), R(1, 2), R(1, 2), R(1, 2), R(1, 2), R(-1, 2), R(1, 2), R(-1, 2), R(1, 2), R(1, 2), R(-1, 2), R(-1, 2), R(1, 2), R(-1, 2), R(-1, 2), R(1, 2);
    else
        throw std::logic_error("no frame");
    return Q;
}

static Real beta_of(const std::string& kind)
{
    if (kind == "regular")
        return sym::rational(3, 4);
    if (kind == "zero")
        return Real(0);
    if (kind == "tiny")
        return sym::from_expr(sym::ctx().real_val(("1/1" + std::string(320, '0')).c_str()));  // 1e-320 < near_0: breakdown branch
    if (kind == "small")
        return sym::rational(1, 1000000000);  // < sqrt(eps): Lanczos local-restart test
    throw std::logic_error("beta kind");
}

// Ahat with the zero pattern of a dimension-k factorization; symmetric => Lanczos
// numeric filler entries (small distinct rationals) used where a case keeps only part of Ahat symbolic
static Real filler(int i, int j) { return sym::rational(1 + ((i * 3 + j * 5) % 7), 2 + ((i + 2 * j) % 3)); }
static bool g_sparse_symbols = false;  // breakdown cases: only column/row k of Ahat is symbolic
static Real entry(const std::string& nm, int i, int j, int k)
{
    if (g_sparse_symbols && i != k && j != k)
        return filler(std::min(i, j), std::max(i, j));
    return sym::fresh(nm);
}
static RMat make_Ahat(int n, int k, bool symmetric, const Real& beta)
{
    RMat Ah = RMat::Zero(n, n);
    for (int i = 0; i < n; i++)
        for (int j = (symmetric ? i : 0); j < n; j++)
        {
            bool zero;
            if (symmetric)
                zero = (i < k - 1 && j > i + 1) || false;  // rows i < k-1: only (i,i),(i,i+1); row k-1: (k-1,k-1),(k-1,k) = beta, rest 0
            else
                zero = false;
            if (symmetric)
            {
                int lo = std::min(i, j), hi = std::max(i, j);
                zero = (lo < k) && (hi > lo + 1);
                Real v = zero ? Real(0) : ((lo == k - 1 && hi == k) ? beta : entry("a_" + std::to_string(lo) + "_" + std::to_string(hi), lo, hi, k));
                Ah(i, j) = v;
                Ah(j, i) = v;
            }
        }
    if (!symmetric)
        for (int i = 0; i < n; i++)
            for (int j = 0; j < n; j++)
            {
                bool zero = (j < k) && (i > j + 1);
                Ah(i, j) = zero ? Real(0) : ((j == k - 1 && i == k) ? beta : entry("a_" + std::to_string(i) + "_" + std::to_string(j), i, j, k));
            }
    return Ah;
}

template <typename Fac, typename AOp>
static void check_invariant(const std::string& where, const Fac& fac, const RMat& A, const RMat& Bm, int n, int k_expected, bool symmetric, long applied, long counter)
{
    sym::Scope sc(where);
    const int k = fac.m_k;
    sym::expect("advertised dimension", k == k_expected, "m_k=" + std::to_string(k) + " expected " + std::to_string(k_expected));
    RMat V = fac.m_fac_V.leftCols(k);
    RMat H = fac.m_fac_H.topLeftCorner(k, k);
    RVec f = fac.m_fac_f;
    // A V = V H + f e_k'
    RMat L = A * V, R = V * H;
    for (int i = 0; i < n; i++)
        R(i, k - 1) = R(i, k - 1) + f[i];
    bool f_forced_zero = !fac.m_beta.is_sym() && fac.m_beta.value() == 0.0 && where == "after init";
    if (f_forced_zero && !getenv("VERIF_C07_TOL"))
        sym::note("skipped", "forced-zero tolerance obligations of init() (thorough tier only)");
    else if (f_forced_zero)
    {
        // init() forces a residual below eps*|H(0,0)| to exactly zero (documented rounding guard): the identity then holds
        // up to that threshold
        for (int i = 0; i < n; i++)
            sym::check("AV=VH+fe' up to the forced-zero threshold(" + std::to_string(i) + ")",
                       sym::le(sym::abs(L(i, 0) - R(i, 0)), sym::prof_epsilon() * sym::abs(H(0, 0))));
    }
    else
        symx::check_mat_eq("AV=VH+fe'", L, R);
    symx::check_mat_eq("V'BV=I", RMat(V.transpose() * Bm * V), RMat::Identity(k, k));
    RVec vf = V.transpose() * Bm * f;
    for (int i = 0; i < k; i++)
        sym::check_eq("V'Bf=0[" + std::to_string(i) + "]", vf[i], Real(0));
    for (int i = 0; i < k; i++)
        for (int j = 0; j < k; j++)
        {
            if (i > j + 1)
                sym::check_eq("H Hessenberg(" + std::to_string(i) + "," + std::to_string(j) + ")", H(i, j), Real(0));
            if (symmetric && j > i + 1)
                sym::check_eq("H tridiagonal(" + std::to_string(i) + "," + std::to_string(j) + ")", H(i, j), Real(0));
            if (symmetric && j == i + 1)
                sym::check_eq("H symmetric(" + std::to_string(i) + ")", H(i, j), H(j, i));
        }
    Real fBf = (f.transpose() * Bm * f)(0, 0);
    sym::check_eq("beta^2=f'Bf", fac.m_beta * fac.m_beta, fBf);
    sym::check("beta>=0", sym::le(Real(0), fac.m_beta));
    sym::expect("op counter == real applications", counter == applied, "counter=" + std::to_string(counter) + " applied=" + std::to_string(applied));
}

// one step k -> k+1 from an arbitrary valid state
template <bool IsLanczos>
static void step_case(int n, int k, const std::string& bkind)
{
    using AOp = ArnoldiOp<Real, MatOp, IdentityBOp>;
    using Fac = typename std::conditional<IsLanczos, Lanczos<Real, AOp>, Arnoldi<Real, AOp>>::type;
    const int m = n;  // room up to the full space
    RMat Qc = frame(n);
    Real beta = beta_of(bkind);
    g_sparse_symbols = (bkind == "zero" || bkind == "tiny");
    RMat Ah = make_Ahat(n, k, IsLanczos, beta);
    g_sparse_symbols = false;
    MatOp op;
    op.A = Qc * Ah * Qc.transpose();
    IdentityBOp bop;
    Fac fac(AOp(op, bop), m);
    fac.m_fac_V = RMat::Zero(n, m);
    fac.m_fac_H = RMat::Zero(m, m);
    fac.m_fac_V.leftCols(k) = Qc.leftCols(k);
    fac.m_fac_H.topLeftCorner(k, k) = Ah.topLeftCorner(k, k);
    fac.m_fac_f = beta * Qc.col(k);
    fac.m_beta = beta;
    fac.m_k = k;
    RMat I = RMat::Identity(n, n);
    Eigen::Index counter = 0;
    check_invariant<Fac, AOp>("pre-state", fac, op.A, I, n, k, IsLanczos, op.applied, counter);
    fac.factorize_from(k, k + 1, counter);
    sym::note("applications", std::to_string(op.applied));
    check_invariant<Fac, AOp>("after factorize_from", fac, op.A, I, n, k + 1, IsLanczos, op.applied, counter);
    if (bkind == "zero" || bkind == "tiny")
    {
        // breakdown: the sub-diagonal entry that links the new direction must be 0
        sym::check_eq("breakdown: H(k,k-1)=0", fac.m_fac_H(k, k - 1), Real(0));
        sym::expect("breakdown restart applied the operator once more", op.applied == 2, "applied=" + std::to_string(op.applied));
    }
    else
        sym::expect("one application per regular step", op.applied == 1, "applied=" + std::to_string(op.applied));
    sym::witness("end");
}

// breakdown at the first of two steps inside ONE factorize_from call (the per-step restart flag must not leak into the next step)
template <bool IsLanczos>
static void two_step_breakdown_case(int n, int k)
{
    using AOp = ArnoldiOp<Real, MatOp, IdentityBOp>;
    using Fac = typename std::conditional<IsLanczos, Lanczos<Real, AOp>, Arnoldi<Real, AOp>>::type;
    RMat Qc = frame(n);
    // numeric Ahat: block diagonal (invariant subspace of dimension k), so the first step breaks down exactly
    RMat Ah = RMat::Zero(n, n);
    for (int i = 0; i < n; i++)
        for (int j = (IsLanczos ? i : 0); j < n; j++)
        {
            bool cross = (i < k) != (j < k);
            bool below = (j < k) && (i > j + 1);
            Real v = (cross || below || (IsLanczos && std::abs(i - j) > 1 && std::min(i, j) < k)) ? Real(0) : filler(std::min(i, j), std::max(i, j));
            Ah(i, j) = v;
            if (IsLanczos)
                Ah(j, i) = v;
        }
    Ah(k, k) = sym::fresh("a_kk");  // one symbolic entry keeps the solver in the loop
    MatOp op;
    op.A = Qc * Ah * Qc.transpose();
    IdentityBOp bop;
    Fac fac(AOp(op, bop), n);
    fac.m_fac_V = RMat::Zero(n, n);
    fac.m_fac_H = RMat::Zero(n, n);
    fac.m_fac_V.leftCols(k) = Qc.leftCols(k);
    fac.m_fac_H.topLeftCorner(k, k) = Ah.topLeftCorner(k, k);
    fac.m_fac_f = RVec::Zero(n);
    fac.m_beta = Real(0);
    fac.m_k = k;
    Eigen::Index counter = 0;
    check_invariant<Fac, AOp>("pre-state", fac, op.A, RMat::Identity(n, n), n, k, IsLanczos, op.applied, counter);
    fac.factorize_from(k, k + 2, counter);
    check_invariant<Fac, AOp>("after factorize_from", fac, op.A, RMat::Identity(n, n), n, k + 2, IsLanczos, op.applied, counter);
    sym::check_eq("breakdown step: H(k,k-1)=0", fac.m_fac_H(k, k - 1), Real(0));
    sym::witness("end");
}

// breakdown followed by a regular step inside ONE factorize_from call, on data chosen so that the restart direction has a
// rational norm (all square roots of the first step are exact): V_k = e_0..e_{k-1}, A = blockdiag(A11, B) with B chosen from the
// generator's draws so that the orthogonalised restart vector is (0,..,0, 3t, 4t).  One entry of B stays symbolic.
static void two_step_rational_case()
{
    using AOp = ArnoldiOp<Real, MatOp, IdentityBOp>;
    using Fac = Arnoldi<Real, AOp>;
    const int n = 4, k = 2;
    sym::set_normalize(true);
    // the draws expand_basis will make for this restart (seed 2*k, iter 0), through the same (stubbed) generator
    SimpleRandom<Real> rng(2 * k);
    RVec r = rng.random_vec(n);
    if ((r[2] == Real(0)) || (r[3] == Real(0)))
        sym::cut("a draw is zero: choose another configuration");
    MatOp op;
    op.A = RMat::Zero(n, n);
    op.A(0, 0) = sym::rational(2, 1);
    op.A(0, 1) = sym::rational(1, 2);
    op.A(1, 0) = sym::rational(1, 3);
    op.A(1, 1) = sym::rational(-1, 1);
    op.A(2, 2) = sym::rational(3, 1) / r[2];  // (B r)_2 = 3, (B r)_3 = 4: restart direction (0,0,3,4)/5
    op.A(3, 3) = sym::rational(4, 1) / r[3];
    Real x = sym::fresh("b23");
    op.A(2, 3) = x;  // symbolic coupling inside the second block
    op.A(3, 2) = sym::fresh("b32");
    // keep the restart direction rational: compensate the symbolic couplings on the diagonal entries
    op.A(2, 2) = op.A(2, 2) - x * r[3] / r[2];
    op.A(3, 3) = op.A(3, 3) - op.A(3, 2) * r[2] / r[3];
    IdentityBOp bop;
    Fac fac(AOp(op, bop), n);
    fac.m_fac_V = RMat::Zero(n, n);
    fac.m_fac_H = RMat::Zero(n, n);
    fac.m_fac_V(0, 0) = Real(1);
    fac.m_fac_V(1, 1) = Real(1);
    fac.m_fac_H.topLeftCorner(k, k) = op.A.topLeftCorner(k, k);
    fac.m_fac_f = RVec::Zero(n);
    fac.m_beta = Real(0);
    fac.m_k = k;
    Eigen::Index counter = 0;
    check_invariant<Fac, AOp>("pre-state", fac, op.A, RMat::Identity(n, n), n, k, false, op.applied, counter);
    fac.factorize_from(k, k + 2, counter);
    check_invariant<Fac, AOp>("after factorize_from", fac, op.A, RMat::Identity(n, n), n, k + 2, false, op.applied, counter);
    sym::check_eq("breakdown step: H(k,k-1)=0", fac.m_fac_H(k, k - 1), Real(0));
    sym::witness("end");
}

// breakdown followed by a regular step inside ONE factorize_from call, with every radical numeric: V_k = e_0, e_1 spans an
// invariant subspace of A = [[A11, C], [0, B]] (Arnoldi; A11, C fully symbolic) resp. blockdiag(A11, B) (Lanczos, A11 symbolic
// symmetric). B = B0 + t * v2 * w' where B0 = diag(3/r2, 4/r3) maps the generator's draw r to (3,4), v2 = (3,4)/5 is the
// restart direction and w = (r3,-r2) is orthogonal to the draw: the symbol t then enters H(2,2), H(2,3) only and every norm
// the code takes of a residual is a rational number.  All obligations are linear in the 9 (Lanczos: 3) symbols.
template <bool IsLanczos>
static void two_step_linear_case()
{
    using AOp = ArnoldiOp<Real, MatOp, IdentityBOp>;
    using Fac = typename std::conditional<IsLanczos, Lanczos<Real, AOp>, Arnoldi<Real, AOp>>::type;
    const int n = 4, k = 2;
    sym::set_normalize(true);
    SimpleRandom<Real> rng(2 * k);
    RVec r = rng.random_vec(n);
    if ((r[2] == Real(0)) || (r[3] == Real(0)))
        sym::cut("a draw is zero: choose another configuration");
    MatOp op;
    op.A = RMat::Zero(n, n);
    for (int i = 0; i < k; i++)
        for (int j = (IsLanczos ? i : 0); j < k; j++)
        {
            op.A(i, j) = sym::fresh("a" + std::to_string(i) + std::to_string(j));
            if (IsLanczos)
                op.A(j, i) = op.A(i, j);
        }
    if (!IsLanczos)
        for (int i = 0; i < k; i++)
            for (int j = k; j < n; j++)
                op.A(i, j) = sym::fresh("c" + std::to_string(i) + std::to_string(j));
    op.A(2, 2) = sym::rational(3, 1) / r[2];
    op.A(3, 3) = sym::rational(4, 1) / r[3];
    if (!IsLanczos)
    {
        Real t = sym::fresh("t");
        Real v2[2] = {sym::rational(3, 5), sym::rational(4, 5)};
        Real w[2] = {r[3], Real(0) - r[2]};
        for (int i = 0; i < 2; i++)
            for (int j = 0; j < 2; j++)
                op.A(2 + i, 2 + j) = op.A(2 + i, 2 + j) + t * v2[i] * w[j];
    }
    IdentityBOp bop;
    Fac fac(AOp(op, bop), n);
    fac.m_fac_V = RMat::Zero(n, n);
    fac.m_fac_H = RMat::Zero(n, n);
    fac.m_fac_V(0, 0) = Real(1);
    fac.m_fac_V(1, 1) = Real(1);
    fac.m_fac_H.topLeftCorner(k, k) = op.A.topLeftCorner(k, k);
    fac.m_fac_f = RVec::Zero(n);
    fac.m_beta = Real(0);
    fac.m_k = k;
    Eigen::Index counter = 0;
    check_invariant<Fac, AOp>("pre-state", fac, op.A, RMat::Identity(n, n), n, k, IsLanczos, op.applied, counter);
    fac.factorize_from(k, k + 2, counter);
    check_invariant<Fac, AOp>("after factorize_from", fac, op.A, RMat::Identity(n, n), n, k + 2, IsLanczos, op.applied, counter);
    sym::check_eq("breakdown step: H(k,k-1)=0", fac.m_fac_H(k, k - 1), Real(0));
    sym::witness("end");
}

// init(v0) with a numeric start vector
template <bool IsLanczos>
static void init_case(int n, int vkind)
{
    using AOp = ArnoldiOp<Real, MatOp, IdentityBOp>;
    using Fac = typename std::conditional<IsLanczos, Lanczos<Real, AOp>, Arnoldi<Real, AOp>>::type;
    MatOp op;
    op.A = RMat(n, n);
    for (int i = 0; i < n; i++)
        for (int j = (IsLanczos ? i : 0); j < n; j++)
        {
            Real a = sym::fresh("A_" + std::to_string(i) + "_" + std::to_string(j));
            op.A(i, j) = a;
            if (IsLanczos)
                op.A(j, i) = a;
        }
    RVec v0(n);
    if (vkind == 0)
    {
        // the library's default start vector (SimpleRandom, seed 0)
        SimpleRandom<double> rng(0);
        Eigen::VectorXd r = rng.random_vec(n);
        for (int i = 0; i < n; i++)
            v0[i] = sym::exact(r[i]);  // exact rational value of the double draw: later arithmetic stays exact
    }
    else
        for (int i = 0; i < n; i++)
            v0[i] = (vkind == 1) ? sym::rational(i == 0 ? 1 : 0, 1) : sym::rational(i + 1, 7);
    IdentityBOp bop;
    Fac fac(AOp(op, bop), n);
    Eigen::Index counter = 0;
    Eigen::Map<const RVec> v0m(v0.data(), n);
    fac.init(v0m, counter);
    check_invariant<Fac, AOp>("after init", fac, op.A, RMat::Identity(n, n), n, 1, IsLanczos, op.applied, counter);
    sym::expect("init applies the operator twice", op.applied == 2, "applied=" + std::to_string(op.applied));
    sym::witness("end");
}

static void init_zero_vector_case(int n, bool tiny)
{
    using AOp = ArnoldiOp<Real, MatOp, IdentityBOp>;
    MatOp op;
    op.A = symx::fresh_mat("A", n, n);
    RVec v0 = RVec::Zero(n);
    if (tiny)
        v0[n - 1] = Real(std::ldexp(1.0, -1060));
    IdentityBOp bop;
    Arnoldi<Real, AOp> fac(AOp(op, bop), n);
    Eigen::Index counter = 0;
    Eigen::Map<const RVec> v0m(v0.data(), n);
    bool threw = false;
    try
    {
        fac.init(v0m, counter);
    }
    catch (const std::invalid_argument&)
    {
        threw = true;
    }
    sym::expect("zero start vector rejected with invalid_argument", threw, "init accepted a (numerically) zero vector");
    sym::expect("operator not applied on rejection", op.applied == 0, "applied=" + std::to_string(op.applied));
    sym::witness("end");
}

// implicit restart with one real shift: real compress_H + compress_V from a full (k = m) valid state
template <bool IsLanczos>
static void compress_case(int n, int m)
{
    using AOp = ArnoldiOp<Real, MatOp, IdentityBOp>;
    using Fac = typename std::conditional<IsLanczos, Lanczos<Real, AOp>, Arnoldi<Real, AOp>>::type;
    g_rot_calls = 0;
    RMat Qc = frame(n);
    Real beta = (m == n) ? Real(0) : sym::rational(3, 4);
    RMat Ah = make_Ahat(n, m, IsLanczos, beta);
    MatOp op;
    op.A = Qc * Ah * Qc.transpose();
    IdentityBOp bop;
    Fac fac(AOp(op, bop), m);
    fac.m_fac_V = Qc.leftCols(m);
    fac.m_fac_H = Ah.topLeftCorner(m, m);
    fac.m_fac_f = (m == n) ? RVec(RVec::Zero(n)) : RVec(beta * Qc.col(m));
    fac.m_beta = beta;
    fac.m_k = m;
    Eigen::Index counter = 0;
    check_invariant<Fac, AOp>("pre-state", fac, op.A, RMat::Identity(n, n), n, m, IsLanczos, op.applied, counter);
    Real shift = sym::fresh("shift");
    RMat Q = RMat::Identity(m, m);
    if constexpr (IsLanczos)
    {
        // TridiagQR deflates negligible sub-diagonals (|e| <= eps(|d_i|+|d_i+1|)): on those paths the similarity holds only to
        // eps level by design.  Inputs are assumed clearly unreduced; result-deflation paths are recorded and not checked.
        for (int i = 0; i + 1 < m; i++)
            if (Ah(i + 1, i).is_sym())
                sym::assume(sym::lt(sym::prof_epsilon() * (sym::abs(Ah(i, i)) + sym::abs(Ah(i + 1, i + 1))), sym::abs(Ah(i + 1, i))));
        TridiagQR<Real> decomp(m);
        decomp.compute(fac.matrix_H(), shift);
        decomp.apply_YQ(Q);
        fac.compress_H(decomp);
    }
    else
    {
        UpperHessenbergQR<Real> decomp(m);
        decomp.compute(fac.matrix_H(), shift);
        decomp.apply_YQ(Q);
        fac.compress_H(decomp);
    }
    fac.compress_V(Q);
    if (IsLanczos)
        for (int i = 0; i + 1 < m; i++)
            if (!fac.m_fac_H(i + 1, i).is_sym() && Ah(i + 1, i).is_sym())
            {
                sym::note("skipped", "result-deflation path of TridiagQR (eps-level by design)");
                sym::witness("end-deflated");
                return;
            }
    check_invariant<Fac, AOp>("after compress", fac, op.A, RMat::Identity(n, n), n, m - 1, IsLanczos, op.applied, counter);
    sym::expect("compress applies no operator", op.applied == 0, "applied=" + std::to_string(op.applied));
    sym::witness("end");
}

// generalized problem: B-inner product (ArnoldiOp<S, Op, BOp>), Lanczos step; B = L L' rational SPD, frame W = L^{-T} Qc
static void bstep_case(int n, int k)
{
    using AOp = ArnoldiOp<Real, MatOp, BMatOp>;
    using Fac = Lanczos<Real, AOp>;
    auto R = [](long p, long q) { return sym::rational(p, q); };
    RMat L = RMat::Zero(n, n), Linv = RMat::Zero(n, n);
    // L = I + strictly lower part with entries 1/2 on the first sub-diagonal: unit lower bidiagonal, inverse explicit
    for (int i = 0; i < n; i++)
    {
        L(i, i) = R(1, 1);
        if (i > 0)
            L(i, i - 1) = R(1, 2);
    }
    for (int j = 0; j < n; j++)
    {
        Linv(j, j) = R(1, 1);
        for (int i = j + 1; i < n; i++)
            Linv(i, j) = -R(1, 2) * Linv(i - 1, j);
    }
    BMatOp bop;
    bop.B = L * L.transpose();
    RMat Qc = frame(n);
    RMat W = Linv.transpose() * Qc;  // W' B W = I
    Real beta = sym::rational(3, 4);
    RMat Ah = make_Ahat(n, k, true, beta);
    MatOp op;
    op.A = W * Ah * W.transpose() * bop.B;  // B-self-adjoint operator with Krylov data (W, Ahat)
    Fac fac(AOp(op, bop), n);
    fac.m_fac_V = RMat::Zero(n, n);
    fac.m_fac_H = RMat::Zero(n, n);
    fac.m_fac_V.leftCols(k) = W.leftCols(k);
    fac.m_fac_H.topLeftCorner(k, k) = Ah.topLeftCorner(k, k);
    fac.m_fac_f = beta * W.col(k);
    fac.m_beta = beta;
    fac.m_k = k;
    Eigen::Index counter = 0;
    check_invariant<Fac, AOp>("pre-state", fac, op.A, bop.B, n, k, true, op.applied, counter);
    fac.factorize_from(k, k + 1, counter);
    check_invariant<Fac, AOp>("after factorize_from", fac, op.A, bop.B, n, k + 1, true, op.applied, counter);
    sym::witness("end");
}

// generalized problem, breakdown: the restart direction of expand_basis must be orthogonalised and NORMALISED in the B-inner
// product.  Ahat = blockdiag(symbolic k x k tridiagonal, numeric rest), V_k = W[:, :k] spans an invariant subspace, f = 0.
// (The re-orthogonalisation loop inside expand_basis is entered only when the first projection is inexact, i.e. through rounding:
// exact arithmetic never takes that path from an exact pre-state.  Variants with a rounding-like perturbation of V were tried -
// numeric and symbolic, 2^-20 / 2^-30 - and left the solver with algebraic numbers it does not decide within minutes.)
static void bstep_breakdown_case(int n, int k, bool diagB = false)
{
    using AOp = ArnoldiOp<Real, MatOp, BMatOp>;
    using Fac = Lanczos<Real, AOp>;
    sym::set_normalize(true);
    auto R = [](long p, long q) { return sym::rational(p, q); };
    RMat L = RMat::Zero(n, n), Linv = RMat::Zero(n, n);
    for (int i = 0; i < n; i++)
    {
        L(i, i) = R(1, 1);
        if (i > 0)
            L(i, i - 1) = R(1, 2);
    }
    for (int j = 0; j < n; j++)
    {
        Linv(j, j) = R(1, 1);
        for (int i = j + 1; i < n; i++)
            Linv(i, j) = -R(1, 2) * Linv(i - 1, j);
    }
    if (diagB)
    {
        // B = D^2 diagonal, chosen so that ALSO the Euclidean norm of the last frame vector is rational (3 resp. 7/2): a restart
        // direction normalised in the wrong inner product then stays a rational vector and the broken invariant is decided at once
        L.setZero();
        Linv.setZero();
        for (int i = 0; i < n; i++)
        {
            Real d = (n == 3) ? R(i == 0 ? 1 : (i == 1 ? 2 : 4), 4) : R(i == n - 1 ? 4 : 1, 4);
            L(i, i) = d;
            Linv(i, i) = R(1, 1) / d;
        }
    }
    BMatOp bop;
    bop.B = L * L.transpose();
    RMat Qc = frame(n);
    RMat W = Linv.transpose() * Qc;  // W' B W = I
    RMat Ah = RMat::Zero(n, n);
    for (int i = 0; i < n; i++)
        for (int j = i; j < n; j++)
        {
            if ((i < k) != (j < k) || (j > i + 1 && i < k))
                continue;
            Real v = (j < k) ? sym::fresh("a_" + std::to_string(i) + "_" + std::to_string(j)) : filler(i, j);
            Ah(i, j) = v;
            Ah(j, i) = v;
        }
    MatOp op;
    op.A = W * Ah * W.transpose() * bop.B;
    Fac fac(AOp(op, bop), n);
    fac.m_fac_V = RMat::Zero(n, n);
    fac.m_fac_H = RMat::Zero(n, n);
    fac.m_fac_V.leftCols(k) = W.leftCols(k);
    fac.m_fac_H.topLeftCorner(k, k) = Ah.topLeftCorner(k, k);
    fac.m_fac_f = RVec::Zero(n);
    fac.m_beta = Real(0);
    fac.m_k = k;
    Eigen::Index counter = 0;
    check_invariant<Fac, AOp>("pre-state", fac, op.A, bop.B, n, k, true, op.applied, counter);
    fac.factorize_from(k, k + 1, counter);
    sym::note("applications", std::to_string(op.applied));
    check_invariant<Fac, AOp>("after factorize_from", fac, op.A, bop.B, n, k + 1, true, op.applied, counter);
    sym::check_eq("breakdown: H(k,k-1)=0", fac.m_fac_H(k, k - 1), Real(0));
    sym::witness("end");
}

int main(int argc, char** argv)
{
    std::vector<sym::Case> cases;
    cases.push_back({"lanczos-bstep-breakdown/n3/k2", []() { bstep_breakdown_case(3, 2); }});
    cases.push_back({"lanczos-bstep-breakdown/n4/k3", []() { bstep_breakdown_case(4, 3); }});
    cases.push_back({"lanczos-bstep-breakdown/n3/k2/diagB", []() { bstep_breakdown_case(3, 2, true); }});
    cases.push_back({"lanczos-bstep-breakdown/n4/k3/diagB", []() { bstep_breakdown_case(4, 3, true); }});
    for (int n = 3; n <= 4; n++)
        for (int k = 1; k < n; k++)
            for (const char* bk : {"regular", "zero", "small"})
            {
                std::string b = bk;
                std::string tail = "/n" + std::to_string(n) + "/k" + std::to_string(k) + "/" + b;
                cases.push_back({"arnoldi-step" + tail, [n, k, b]() { step_case<false>(n, k, b); }});
                cases.push_back({"lanczos-step" + tail, [n, k, b]() { step_case<true>(n, k, b); }});
            }
    cases.push_back({"arnoldi-2step-rational/n4/k2", two_step_rational_case});
    cases.push_back({"arnoldi-2step-linear/n4/k2", two_step_linear_case<false>});
    cases.push_back({"lanczos-2step-linear/n4/k2", two_step_linear_case<true>});
    cases.push_back({"arnoldi-2step-breakdown/n4/k1",[]() { two_step_breakdown_case<false>(4, 1); }});
    cases.push_back({"lanczos-2step-breakdown/n4/k1", []() { two_step_breakdown_case<true>(4, 1); }});
    cases.push_back({"arnoldi-2step-breakdown/n4/k2", []() { two_step_breakdown_case<false>(4, 2); }});
    cases.push_back({"lanczos-2step-breakdown/n4/k2", []() { two_step_breakdown_case<true>(4, 2); }});
    for (int n = 2; n <= 3; n++)
        for (int vk = 0; vk < 3; vk++)
        {
            cases.push_back({"arnoldi-init/n" + std::to_string(n) + "/v" + std::to_string(vk), [n, vk]() { init_case<false>(n, vk); }});
            cases.push_back({"lanczos-init/n" + std::to_string(n) + "/v" + std::to_string(vk), [n, vk]() { init_case<true>(n, vk); }});
        }
    cases.push_back({"init-zero-vector/n3/zero", []() { init_zero_vector_case(3, false); }});
    cases.push_back({"init-zero-vector/n3/tiny", []() { init_zero_vector_case(3, true); }});
    for (int n = 3; n <= 4; n++)
        for (int m = 2; m <= n; m++)
        {
            std::string tail = "/n" + std::to_string(n) + "/m" + std::to_string(m);
            cases.push_back({"arnoldi-compress" + tail, [n, m]() { compress_case<false>(n, m); }});
            cases.push_back({"lanczos-compress" + tail, [n, m]() { compress_case<true>(n, m); }});
        }
    for (int n = 3; n <= 4; n++)
        for (int k = 1; k < n; k++)
            cases.push_back({"lanczos-bstep/n" + std::to_string(n) + "/k" + std::to_string(k), [n, k]() { bstep_case(n, k); }});
    return sym::run_main(argc, argv, cases);
}
