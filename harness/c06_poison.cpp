// C06 / C14 (mode P, DESIGN.md 3.1): the REAL solvers and the REAL kernels on concrete operators; what is symbolic is the HISTORY.
// Every member of the solver object that an earlier init()/compute() - finished, unconverged or interrupted by an exception -
// could have written is overwritten with "poison" symbols (or sentinel integers / flags).  Then init(v); compute(args) runs.
// No branch may depend on poison (taint), every public result must be free of poison and bit-identical to a fresh solver's.
// C14: the user's operator throws at a nondeterministically chosen application (the explorer enumerates every position).
#include "symx_eigen.h"
#include <Eigen/Sparse>
#include <Spectra/SymEigsSolver.h>
#include <Spectra/SymEigsShiftSolver.h>
#include <Spectra/GenEigsSolver.h>
#include <Spectra/GenEigsRealShiftSolver.h>
#include <Spectra/GenEigsComplexShiftSolver.h>
#include <Spectra/SymGEigsSolver.h>
#include <Spectra/MatOp/DenseSymMatProd.h>
#include <Spectra/MatOp/DenseGenMatProd.h>
#include <Spectra/MatOp/DenseSymShiftSolve.h>
#include <Spectra/MatOp/DenseGenRealShiftSolve.h>
#include <Spectra/MatOp/DenseGenComplexShiftSolve.h>
#include <Spectra/MatOp/DenseCholesky.h>
#include <Spectra/contrib/PartialSVDSolver.h>

using namespace Spectra;
using sym::Real;
using symx::CMat;
using symx::CReal;
using symx::CVec;
using symx::RMat;
using symx::RVec;

static int g_poison = 0;
static Real poison() { return sym::fresh("poison_" + std::to_string(g_poison++)); }
template <typename M>
static void poison_real(M& m, int r, int c)
{
    m.resize(r, c);
    for (int i = 0; i < r; i++)
        for (int j = 0; j < c; j++)
            m(i, j) = poison();
}
template <typename M>
static void poison_cplx(M& m, int r, int c)
{
    m.resize(r, c);
    for (int i = 0; i < r; i++)
        for (int j = 0; j < c; j++)
            m(i, j) = CReal(poison(), poison());
}

// fixed operator instances (printed in the evidence)
static RMat instance(const std::string& kind, int n, bool symmetric)
{
    RMat A = RMat::Zero(n, n);
    if (kind == "diag")
        for (int i = 0; i < n; i++)
            A(i, i) = Real(double(n - i));
    else if (kind == "laplace")
        for (int i = 0; i < n; i++)
        {
            A(i, i) = Real(2.0);
            if (i + 1 < n)
                A(i, i + 1) = A(i + 1, i) = Real(-1.0);
        }
    else if (kind == "rank1")
        for (int i = 0; i < n; i++)
            for (int j = 0; j < n; j++)
                A(i, j) = Real(double((i + 1) * (j + 1)) / 8.0);
    else if (kind == "block")
        for (int i = 0; i < n; i++)
            for (int j = 0; j < n; j++)
                if ((i < n / 2) == (j < n / 2))
                    A(i, j) = Real(i == j ? 3.0 + i : 0.5);
    else if (kind == "perm")
        for (int i = 0; i < n; i++)
            A((i + 1) % n, i) = Real(1.0);
    else if (kind == "zero")
        ;
    else if (kind == "identity")
        for (int i = 0; i < n; i++)
            A(i, i) = Real(1.0);
    else if (kind == "nilpotent")
        for (int i = 0; i + 1 < n; i++)
            A(i, i + 1) = Real(1.0);
    else if (kind == "skew")
        for (int i = 0; i < n; i++)
            for (int j = i + 1; j < n; j++)
            {
                A(i, j) = Real(double(((i * 3 + j) % 5) + 1) / 4.0);
                A(j, i) = -A(i, j);
            }
    else if (kind == "tie")  // spectrum with exact ties in every selection key: diag(2,2,-2,-2,1,1)
        for (int i = 0; i < n; i++)
            A(i, i) = Real(i < 2 ? 2.0 : (i < 4 ? -2.0 : 1.0));
    else  // "int": a fixed integer matrix
        for (int i = 0; i < n; i++)
            for (int j = 0; j < n; j++)
                A(i, j) = Real(double(((i * 7 + j * 3 + 1) % 11) - 5) + (i == j ? 6.0 : 0.0));
    if (symmetric)
    {
        RMat S = (A + A.transpose());
        for (int i = 0; i < n; i++)
            for (int j = 0; j < n; j++)
                S(i, j) = S(i, j) * Real(0.5);
        return S;
    }
    return A;
}
static RVec start_vector(const std::string& kind, int n)
{
    RVec v(n);
    for (int i = 0; i < n; i++)
        v[i] = (kind == "e0") ? Real(i == 0 ? 1.0 : 0.0) : (kind == "ones") ? Real(1.0) : Real(0.25 + 0.125 * ((i * 5) % 7));
    return v;
}

static bool bit_equal(const Real& a, const Real& b)
{
    if (a.is_sym() || b.is_sym())
        return false;
    double x = a.value(), y = b.value();
    return std::memcmp(&x, &y, sizeof x) == 0;
}
struct Result
{
    std::vector<Real> vals;   // eigenvalues (re, im interleaved for the general solvers)
    std::vector<Real> vecs;   // eigenvector entries
    long niter = 0, nops = 0, nconv = 0;
    int info = -1;
};
template <typename Solver>
static Result collect_herm(Solver& e, long nconv)
{
    Result r;
    auto ev = e.eigenvalues();
    auto U = e.eigenvectors();
    for (int i = 0; i < ev.size(); i++)
        r.vals.push_back(ev[i]);
    for (int j = 0; j < U.cols(); j++)
        for (int i = 0; i < U.rows(); i++)
            r.vecs.push_back(U(i, j));
    r.niter = e.num_iterations();
    r.nops = e.num_operations();
    r.nconv = nconv;
    r.info = int(e.info());
    return r;
}
template <typename Solver>
static Result collect_gen(Solver& e, long nconv)
{
    Result r;
    auto ev = e.eigenvalues();
    auto U = e.eigenvectors();
    for (int i = 0; i < ev.size(); i++)
    {
        r.vals.push_back(ev[i].real());
        r.vals.push_back(ev[i].imag());
    }
    for (int j = 0; j < U.cols(); j++)
        for (int i = 0; i < U.rows(); i++)
        {
            r.vecs.push_back(U(i, j).real());
            r.vecs.push_back(U(i, j).imag());
        }
    r.niter = e.num_iterations();
    r.nops = e.num_operations();
    r.nconv = nconv;
    r.info = int(e.info());
    return r;
}
template <bool Gen, typename Solver>
static Result collect(Solver& e, long nconv)
{
    if constexpr (Gen)
        return collect_gen(e, nconv);
    else
        return collect_herm(e, nconv);
}
static void compare(const std::string& what, const Result& a, const Result& b)
{
    bool same = a.vals.size() == b.vals.size() && a.vecs.size() == b.vecs.size();
    bool clean = true;
    for (const Real& x : b.vals)
        if (x.is_sym())
            clean = false;
    for (const Real& x : b.vecs)
        if (x.is_sym())
            clean = false;
    sym::expect(what + ": results do not mention state of an earlier run", clean, "a returned value is a term over poison symbols");
    for (size_t i = 0; same && i < a.vals.size(); i++)
        same = bit_equal(a.vals[i], b.vals[i]);
    for (size_t i = 0; same && i < a.vecs.size(); i++)
        same = bit_equal(a.vecs[i], b.vecs[i]);
    sym::expect(what + ": eigenvalues and eigenvectors bit-identical to a fresh solver", same, "values / vectors differ");
    sym::expect(what + ": num_iterations identical", a.niter == b.niter, std::to_string(a.niter) + " vs " + std::to_string(b.niter));
    sym::expect(what + ": num_operations identical", a.nops == b.nops, std::to_string(a.nops) + " vs " + std::to_string(b.nops));
    sym::expect(what + ": return value and info identical", a.nconv == b.nconv && a.info == b.info, "nconv/info differ");
}

// keeps the matrix alive next to the wrapper that refers to it
template <typename Op>
struct Held
{
    RMat A;
    Op op;
    explicit Held(const RMat& a) : A(a), op(A) {}
};

// overwrite everything an earlier history could have left in a HermEigsBase / GenEigsBase object
template <typename Solver>
static void poison_herm(Solver& e, int n, int nev, int ncv, int shape)
{
    e.m_nmatop = 777;
    e.m_niter = 555;
    e.m_info = CompInfo::NotConverging;
    if (shape == 0)  // sized as after a complete run
    {
        poison_real(e.m_ritz_val, ncv, 1);
        poison_real(e.m_ritz_vec, ncv, nev);
        poison_real(e.m_ritz_est, ncv, 1);
        e.m_ritz_conv.resize(nev);
        e.m_ritz_conv.setConstant(true);
        poison_real(e.m_fac.m_fac_V, n, ncv);
        poison_real(e.m_fac.m_fac_H, ncv, ncv);
        poison_real(e.m_fac.m_fac_f, n, 1);
        e.m_fac.m_beta = poison();
        e.m_fac.m_k = ncv;
    }
    else if (shape == 1)  // interrupted in the middle of a factorization: half-written, m_k anywhere
    {
        poison_real(e.m_ritz_val, ncv, 1);
        poison_real(e.m_ritz_vec, ncv, nev);
        poison_real(e.m_ritz_est, ncv, 1);
        e.m_ritz_conv.resize(nev);
        e.m_ritz_conv.setConstant(false);
        e.m_ritz_conv[0] = true;
        poison_real(e.m_fac.m_fac_V, n, ncv);
        poison_real(e.m_fac.m_fac_H, ncv, ncv);
        poison_real(e.m_fac.m_fac_f, n, 1);
        e.m_fac.m_beta = Real(0);
        e.m_fac.m_k = ncv / 2;
    }
    else  // never initialised (the very first init() threw): unsized members, poison scalar
    {
        e.m_fac.m_beta = poison();
        e.m_fac.m_k = 0;
    }
}
template <typename Solver>
static void poison_gen(Solver& e, int n, int nev, int ncv, int shape)
{
    e.m_nmatop = 777;
    e.m_niter = 555;
    e.m_info = CompInfo::NotConverging;
    if (shape != 2)
    {
        poison_cplx(e.m_ritz_val, ncv, 1);
        poison_cplx(e.m_ritz_vec, ncv, nev);
        poison_cplx(e.m_ritz_est, ncv, 1);
        e.m_ritz_conv.resize(nev);
        e.m_ritz_conv.setConstant(shape == 0);
        poison_real(e.m_fac.m_fac_V, n, ncv);
        poison_real(e.m_fac.m_fac_H, ncv, ncv);
        poison_real(e.m_fac.m_fac_f, n, 1);
        e.m_fac.m_beta = (shape == 0) ? poison() : Real(0);
        e.m_fac.m_k = (shape == 0) ? ncv : ncv / 2;
    }
    else
    {
        e.m_fac.m_beta = poison();
        e.m_fac.m_k = 0;
    }
}

struct Args
{
    SortRule rule;
    int maxit;
    double tol;
};

template <typename Solver, typename MakeOp, bool Gen>
static void reuse_case(MakeOp make, int n, int nev, int ncv, const std::string& vkind, Args args, int shape)
{
    g_poison = 0;
    RVec v0 = start_vector(vkind, n);
    Result fresh;
    {
        auto op = make();
        Solver e(op->op, nev, ncv);
        e.init(v0.data());
        long nc = e.compute(args.rule, args.maxit, Real(args.tol));
        fresh = collect<Gen>(e, nc);
    }
    auto op = make();
    Solver e(op->op, nev, ncv);
    if (shape != 2)
    {
        // a genuine earlier run with other arguments, then everything it may have written is replaced by poison
        RVec other = start_vector("ones", n);
        e.init(other.data());
        e.compute(args.rule, 1, Real(1e-3));
    }
    sym::set_taint_prefix("poison_", "no branch depends on the state left by an earlier run");
    if constexpr (Gen)
        poison_gen(e, n, nev, ncv, shape);
    else
        poison_herm(e, n, nev, ncv, shape);
    e.init(v0.data());
    long nc = e.compute(args.rule, args.maxit, Real(args.tol));
    Result again = collect<Gen>(e, nc);
    compare("reused solver", fresh, again);
    sym::witness("end");
}

// two solver objects sharing one operator object, interleaved at call granularity
template <typename Solver, typename MakeOp, bool Gen>
static void shared_op_case(MakeOp make, int n, int nev, int ncv, Args args)
{
    RVec v0 = start_vector("generic", n), v1 = start_vector("ones", n);
    Result fresh;
    {
        auto op = make();
        Solver e(op->op, nev, ncv);
        e.init(v0.data());
        long nc = e.compute(args.rule, args.maxit, Real(args.tol));
        fresh = collect<Gen>(e, nc);
    }
    auto op = make();
    Solver a(op->op, nev, ncv), b(op->op, nev, ncv);
    a.init(v0.data());
    b.init(v1.data());
    b.compute(args.rule, 2, Real(1e-4));  // second solver runs between the first one's init() and compute()
    long nc = a.compute(args.rule, args.maxit, Real(args.tol));
    Result ra = collect<Gen>(a, nc);
    compare("solver sharing its operator with another solver", fresh, ra);
    sym::witness("end");
}

// two shift-and-invert solvers sharing one operator object: the second constructor installs the shift again (the wrapper
// re-factorizes); results of both must equal those of a solver with its own fresh operator, and the operator must still solve
// the shifted system afterwards.  The operator instances need Bunch-Kaufman interchanges / LU row swaps.
template <typename Solver, typename Op, bool Gen>
static void shared_shift_op_case(const RMat& A, int n, int nev, int ncv, double sigma, Args args)
{
    RVec v0 = start_vector("generic", n), v1 = start_vector("ones", n);
    Result fresh;
    RVec w = start_vector("generic", n), y0(n), y1(n);
    {
        Op op(A);
        Solver e(op, nev, ncv, Real(sigma));
        op.perform_op(w.data(), y0.data());
        e.init(v0.data());
        long nc = e.compute(args.rule, args.maxit, Real(args.tol));
        fresh = collect<Gen>(e, nc);
    }
    Op op(A);
    Solver a(op, nev, ncv, Real(sigma));
    a.init(v0.data());
    Solver b(op, nev, ncv, Real(sigma));  // second solver on the same operator object: set_shift runs again
    b.init(v1.data());
    b.compute(args.rule, 2, Real(1e-4));
    long nc = a.compute(args.rule, args.maxit, Real(args.tol));
    Result ra = collect<Gen>(a, nc);
    compare("shift-and-invert solver sharing its operator with a second solver", fresh, ra);
    op.perform_op(w.data(), y1.data());
    bool same = true;
    for (int i = 0; i < n; i++)
        same = same && bit_equal(y0[i], y1[i]);
    sym::expect("shared operator still applies (A - sigma I)^{-1} after a second solver was built on it", same, "op(w) changed");
    sym::witness("end");
}

#ifndef C13_AUDIT_ONLY
// operator left untouched: probe before / after compute(); complex-shift solver re-run
static void complex_shift_case(int n)
{
    RMat A = instance("int", n, false);
    DenseGenComplexShiftSolve<Real> op(A);
    GenEigsComplexShiftSolver<DenseGenComplexShiftSolve<Real>> e(op, 2, 5, Real(0.5), Real(0.75));
    RVec w = start_vector("generic", n), y0(n), y1(n);
    op.perform_op(w.data(), y0.data());
    e.init();
    long nc = e.compute(SortRule::LargestMagn, 50, Real(1e-10));
    Result first = collect_gen(e, nc);
    op.perform_op(w.data(), y1.data());
    bool same = true;
    for (int i = 0; i < n; i++)
        same = same && bit_equal(y0[i], y1[i]);
    sym::expect("operator behaves the same after compute() (shift installed at construction still in force)", same, "op(w) changed");
    e.init();
    nc = e.compute(SortRule::LargestMagn, 50, Real(1e-10));
    Result second = collect_gen(e, nc);
    compare("second init()+compute() on the complex-shift solver", first, second);
    sym::witness("end");
}
template <typename Solver, typename Op>
static void probe_case(Op& op, Solver& e, int n, const std::string& what)
{
    RVec w = start_vector("generic", n), y0(n), y1(n);
    op.perform_op(w.data(), y0.data());
    e.init();
    e.compute();
    op.perform_op(w.data(), y1.data());
    bool same = true;
    for (int i = 0; i < n; i++)
        same = same && bit_equal(y0[i], y1[i]);
    sym::expect(what + ": operator behaves the same after compute()", same, "op(w) changed");
}
static void probes_case(int n)
{
    RMat S = instance("laplace", n, true), G = instance("int", n, false);
    {
        DenseSymShiftSolve<Real> op(S);
        SymEigsShiftSolver<DenseSymShiftSolve<Real>> e(op, 2, 4, Real(0.3));
        probe_case(op, e, n, "SymEigsShiftSolver");
    }
    {
        DenseGenRealShiftSolve<Real> op(G);
        GenEigsRealShiftSolver<DenseGenRealShiftSolve<Real>> e(op, 2, 5, Real(0.3));
        probe_case(op, e, n, "GenEigsRealShiftSolver");
    }
    sym::witness("end");
}

// PartialSVDSolver: compute(); U/V; compute(other args); U/V describe the latest run and equal a fresh object's answer
static void svd_case(int m, int n)
{
    RMat A(m, n);
    for (int i = 0; i < m; i++)
        for (int j = 0; j < n; j++)
            A(i, j) = Real(double(((i * 5 + j * 3 + 2) % 13) - 6) / 4.0 + (i == j ? 3.0 : 0.0));
    const int k = 2, ncv = std::min(m, n) - 1 >= 4 ? 4 : std::min(m, n);
    PartialSVDSolver<RMat> fresh(A, k, ncv);
    long nf = fresh.compute(1000, Real(1e-10));
    RMat Uf = fresh.matrix_U(k), Vf = fresh.matrix_V(k);
    RVec sf = fresh.singular_values();
    PartialSVDSolver<RMat> svd(A, k, ncv);
    svd.compute(0, Real(1e-3));
    (void) svd.matrix_U(k);
    (void) svd.matrix_V(k);
    long n2 = svd.compute(1000, Real(1e-10));
    RMat U2 = svd.matrix_U(k), V2 = svd.matrix_V(k);
    RVec s2 = svd.singular_values();
    bool same = nf == n2 && U2.cols() == Uf.cols() && V2.cols() == Vf.cols() && s2.size() == sf.size();
    for (int j = 0; same && j < U2.cols(); j++)
    {
        same = bit_equal(s2[j], sf[j]);
        for (int i = 0; same && i < m; i++)
            same = bit_equal(U2(i, j), Uf(i, j));
        for (int i = 0; same && i < n; i++)
            same = bit_equal(V2(i, j), Vf(i, j));
    }
    sym::expect("PartialSVDSolver: accessors describe the most recent compute() (bit-identical to a fresh object)", same, "stale / different factors after a second compute()");
    sym::expect("matrix_U(k)/matrix_V(k) have min(k, nconv) columns", U2.cols() == std::min<long>(k, n2) && V2.cols() == std::min<long>(k, n2), "column count");
    sym::witness("end");
}

// ---------------------------------------------------------------- C14: failing operator
#endif  // C13_AUDIT_ONLY
struct Fault
{
    int tag;
};
template <typename Base>
struct FaultyOp
{
    using Scalar = Real;
    Base base;
    mutable long calls = 0;
    mutable bool armed = true;
    mutable int faults_left = 1;
    template <typename M>
    explicit FaultyOp(const M& A) : base(A) {}
    Eigen::Index rows() const { return base.rows(); }
    Eigen::Index cols() const { return base.cols(); }
    void perform_op(const Real* x, Real* y) const
    {
        calls++;
        if (armed && faults_left > 0 && sym::choose("fault_at_call_" + std::to_string(calls)))
        {
            faults_left--;
            throw Fault{4711 + (int) calls};
        }
        base.perform_op(x, y);
    }
    // shift-and-invert solvers install their shift through the operator (not counted as an application, never fails here)
    void set_shift(const Real& sigma) { base.set_shift(sigma); }
};
// fault in the shift-solve operator of a shift-and-invert solver, at every application (single fault)
template <typename Solver, typename OpBase, bool Gen>
static void fault_shift_case(const RMat& A, int n, int nev, int ncv, double sigma, Args args)
{
    RVec v0 = start_vector("generic", n);
    Result fresh;
    {
        FaultyOp<OpBase> op(A);
        op.armed = false;
        Solver e(op, nev, ncv, Real(sigma));
        e.init(v0.data());
        long nc = e.compute(args.rule, args.maxit, Real(args.tol));
        fresh = collect<Gen>(e, nc);
        sym::note("fault-free applications", std::to_string(op.calls));
    }
    FaultyOp<OpBase> op(A);
    Solver e(op, nev, ncv, Real(sigma));
    try
    {
        e.init(v0.data());
        e.compute(args.rule, args.maxit, Real(args.tol));
    }
    catch (const Fault& f)
    {
        sym::expect("the operator's exception propagates unchanged", f.tag == 4711 + (int) op.calls, "tag " + std::to_string(f.tag));
        sym::note("fault at application", std::to_string(op.calls));
    }
    op.armed = false;
    e.init(v0.data());
    long nc = e.compute(args.rule, args.maxit, Real(args.tol));
    Result after = collect<Gen>(e, nc);
    compare("after the fault (shift-and-invert)", fresh, after);
    sym::witness("end");
}
template <typename Solver, typename OpBase, bool Gen>
static void fault_case(const RMat& A, int n, int nev, int ncv, Args args, int nfaults)
{
    RVec v0 = start_vector("generic", n);
    Result fresh;
    {
        FaultyOp<OpBase> op(A);
        op.armed = false;
        Solver e(op, nev, ncv);
        e.init(v0.data());
        long nc = e.compute(args.rule, args.maxit, Real(args.tol));
        fresh = collect<Gen>(e, nc);
        sym::note("fault-free applications", std::to_string(op.calls));
    }
    FaultyOp<OpBase> op(A);
    op.faults_left = nfaults;
    Solver e(op, nev, ncv);
    int caught = 0;
    for (int attempt = 0; attempt <= nfaults; attempt++)
    {
        long calls_before = op.calls;
        try
        {
            e.init(v0.data());
            e.compute(args.rule, args.maxit, Real(args.tol));
            break;
        }
        catch (const Fault& f)
        {
            caught++;
            sym::expect("the operator's exception propagates unchanged", f.tag == 4711 + (int) op.calls, "tag " + std::to_string(f.tag));
            sym::note("fault at application", std::to_string(op.calls - calls_before));
        }
    }
    sym::note("faults", std::to_string(caught));
    // the fault is gone: a new init() + compute() on the same solver object
    op.armed = false;
    e.init(v0.data());
    long nc = e.compute(args.rule, args.maxit, Real(args.tol));
    Result after = collect<Gen>(e, nc);
    // num_operations counts since init(): compare with the fresh run
    compare("after the fault", fresh, after);
    sym::witness("end");
}

#ifndef C13_AUDIT_ONLY
// B-operator of a generalized problem (regular-inverse mode): y = B x and y = B^{-1} x, each can fail
struct FaultyBOp
{
    using Scalar = Real;
    RMat B, Binv;
    mutable long calls = 0;
    mutable bool armed = true;
    mutable int faults_left = 1;
    bool fault_in_solve = false;
    Eigen::Index rows() const { return B.rows(); }
    Eigen::Index cols() const { return B.cols(); }
    void maybe_fail(bool is_solve) const
    {
        calls++;
        if (armed && faults_left > 0 && is_solve == fault_in_solve && sym::choose("bfault_at_call_" + std::to_string(calls)))
        {
            faults_left--;
            throw Fault{4711 + (int) calls};
        }
    }
    void perform_op(const Real* x, Real* y) const
    {
        maybe_fail(false);
        Eigen::Map<RVec>(y, B.rows()).noalias() = B * Eigen::Map<const RVec>(x, B.cols());
    }
    void solve(const Real* x, Real* y) const
    {
        maybe_fail(true);
        Eigen::Map<RVec>(y, B.rows()).noalias() = Binv * Eigen::Map<const RVec>(x, B.cols());
    }
};
static void bfault_case(bool in_solve)
{
    const int n = 6, nev = 2, ncv = 4;
    RMat A = instance("laplace", n, true);
    FaultyBOp bop;
    bop.B = RMat::Zero(n, n);
    bop.Binv = RMat::Zero(n, n);
    for (int i = 0; i < n; i++)
    {
        bop.B(i, i) = Real(double(1 << (i % 3)));  // diagonal SPD with exactly representable inverse
        bop.Binv(i, i) = Real(1.0 / double(1 << (i % 3)));
    }
    bop.fault_in_solve = in_solve;
    DenseSymMatProd<Real> op(A);
    using Solver = SymGEigsSolver<DenseSymMatProd<Real>, FaultyBOp, GEigsMode::RegularInverse>;
    RVec v0 = start_vector("generic", n);
    Result fresh;
    {
        bop.armed = false;
        Solver e(op, bop, nev, ncv);
        e.init(v0.data());
        long nc = e.compute(SortRule::LargestAlge, 10, Real(1e-10));
        fresh = collect_herm(e, nc);
        sym::note("fault-free B applications", std::to_string(bop.calls));
    }
    bop.armed = true;
    bop.calls = 0;
    bop.faults_left = 1;
    Solver e(op, bop, nev, ncv);
    try
    {
        e.init(v0.data());
        e.compute(SortRule::LargestAlge, 10, Real(1e-10));
    }
    catch (const Fault& f)
    {
        sym::expect("the B-operator's exception propagates unchanged", f.tag == 4711 + (int) bop.calls, "tag " + std::to_string(f.tag));
        sym::note("B fault at application", std::to_string(bop.calls));
    }
    bop.armed = false;
    e.init(v0.data());
    long nc = e.compute(SortRule::LargestAlge, 10, Real(1e-10));
    Result after = collect_herm(e, nc);
    compare("after the B-operator fault", fresh, after);
    sym::witness("end");
}

#endif  // C13_AUDIT_ONLY
// C13 on the real kernels: an auditing operator (valid, distinct, non-overlapping length-n buffers; call count) around the
// library wrapper; degenerate concrete operators drive the breakdown / restart paths of the real Arnoldi / Lanczos code.
template <typename Base>
struct AuditOp
{
    using Scalar = Real;
    Base base;
    mutable long calls = 0;
    mutable long bad = 0;
    template <typename M>
    explicit AuditOp(const M& A) : base(A) {}
    Eigen::Index rows() const { return base.rows(); }
    Eigen::Index cols() const { return base.cols(); }
    void perform_op(const Real* x, Real* y) const
    {
        calls++;
        const Eigen::Index n = base.rows();
        bool ok = x != nullptr && y != nullptr && (x + n <= y || y + n <= x);
        if (!ok)
        {
            bad++;
            sym::expect("operator is handed valid, distinct input and output buffers", false, std::string(x == y ? "x_in == y_out" : "null or overlapping buffers") + " at application " + std::to_string(calls));
            sym::cut("aliased operator buffers");
        }
        for (Eigen::Index i = 0; i < n; i++)
            if (x[i].is_sym() || !std::isfinite(x[i].value()))
            {
                sym::expect("operator input is finite", false, "non-finite or symbolic input at application " + std::to_string(calls));
                sym::cut("non-finite operator input");
            }
        base.perform_op(x, y);
    }
};
template <typename Solver, typename OpBase, bool Gen>
static void audit_case(const RMat& A, int n, int nev, int ncv, const std::string& vkind, Args args)
{
    AuditOp<OpBase> op(A);
    Solver e(op, nev, ncv);
    RVec v0 = start_vector(vkind, n);
    std::string outcome = "returned";
    long nc = -1;
    try
    {
        e.init(v0.data());
        nc = e.compute(args.rule, args.maxit, Real(args.tol));
    }
    catch (const std::invalid_argument& ex)
    {
        outcome = std::string("invalid_argument: ") + ex.what();
    }
    catch (const std::runtime_error& ex)
    {
        outcome = std::string("runtime_error: ") + ex.what();
    }
    catch (const std::logic_error& ex)
    {
        outcome = std::string("logic_error: ") + ex.what();
    }
    sym::note("outcome", outcome);
    sym::expect("work bound: applications <= 2 + 2*ncv*(maxit+1)", op.calls <= 2 + 2L * ncv * (args.maxit + 1),
                "applications=" + std::to_string(op.calls) + " bound=" + std::to_string(2 + 2L * ncv * (args.maxit + 1)));
    sym::expect("no undocumented exception type", outcome.compare(0, 11, "logic_error") != 0, outcome);
    if (nc >= 0)
    {
        sym::expect("info() is Successful or NotConverging", e.info() == CompInfo::Successful || e.info() == CompInfo::NotConverging, "info=" + std::to_string((int) e.info()));
        sym::expect("num_operations() == real applications", (long) e.num_operations() == op.calls, "counter=" + std::to_string((long) e.num_operations()) + " applied=" + std::to_string(op.calls));
        Result r = collect<Gen>(e, nc);
        bool finite = true;
        for (const Real& x : r.vals)
            finite = finite && !x.is_sym() && std::isfinite(x.value());
        for (const Real& x : r.vecs)
            finite = finite && !x.is_sym() && std::isfinite(x.value());
        sym::expect("returned eigenvalues and eigenvectors are finite", finite, "NaN/Inf in the results");
        sym::expect("count consistent", (long) r.vals.size() == (Gen ? 2 : 1) * nc && nc <= nev, "nconv=" + std::to_string(nc));
    }
    sym::witness("end");
}

int main(int argc, char** argv)
{
    std::vector<sym::Case> cases;
    {
        const char* akinds[] = {"diag", "laplace", "rank1", "block", "perm", "int", "zero", "identity", "nilpotent", "skew", "tie"};
        const char* avk[] = {"generic", "e0", "ones"};
        const int n = 6;
        for (const char* k : akinds)
            for (const char* vk : avk)
                for (int maxit : {0, 1, 30})
                {
                    std::string kind = k, vkind = vk;
                    bool symm_ok = kind != "perm" && kind != "nilpotent" && kind != "skew";
                    for (int ncv : {3, 4, 6})
                    {
                        std::string tail = std::string("/") + k + "/v-" + vk + "/ncv" + std::to_string(ncv) + "/maxit" + std::to_string(maxit);
                        if (symm_ok)
                            cases.push_back({"audit/SymEigsSolver" + tail, [=]() {
                                                 audit_case<SymEigsSolver<AuditOp<DenseSymMatProd<Real>>>, DenseSymMatProd<Real>, false>(instance(kind, n, true), n, 2, ncv, vkind, Args{SortRule::LargestMagn, maxit, 1e-10});
                                             }});
                        if (ncv >= 4)
                            cases.push_back({"audit/GenEigsSolver" + tail, [=]() {
                                                 audit_case<GenEigsSolver<AuditOp<DenseGenMatProd<Real>>>, DenseGenMatProd<Real>, true>(instance(kind, n, false), n, 2, ncv, vkind, Args{SortRule::LargestMagn, maxit, 1e-10});
                                             }});
                    }
                }
    }
#ifndef C13_AUDIT_ONLY
    cases.push_back({"fault-B/SymGEigsSolver-RegularInverse/product", []() { bfault_case(false); }});
    cases.push_back({"fault-B/SymGEigsSolver-RegularInverse/solve", []() { bfault_case(true); }});
    const char* kinds[] = {"diag", "laplace", "rank1", "block", "perm", "int"};
    const char* vkinds[] = {"generic", "e0", "ones"};
    for (const char* k : kinds)
        for (const char* vk : vkinds)
            for (int shape = 0; shape < 3; shape++)
            {
                std::string kind = k, vkind = vk;
                const int n = 6;
                std::string tail = std::string("/") + k + "/v-" + vk + "/shape" + std::to_string(shape);
                if (kind != "perm")
                {
                    auto mk = [kind, n]() { return std::make_shared<Held<DenseSymMatProd<Real>>>(instance(kind, n, true)); };
                    cases.push_back({"reuse/SymEigsSolver" + tail, [=]() {
                                         reuse_case<SymEigsSolver<DenseSymMatProd<Real>>, decltype(mk), false>(mk, n, 2, 4, vkind, Args{SortRule::LargestAlge, 30, 1e-10}, shape);
                                     }});
                }
                auto mkg = [kind, n]() { return std::make_shared<Held<DenseGenMatProd<Real>>>(instance(kind, n, false)); };
                cases.push_back({"reuse/GenEigsSolver" + tail, [=]() {
                                     reuse_case<GenEigsSolver<DenseGenMatProd<Real>>, decltype(mkg), true>(mkg, n, 2, 5, vkind, Args{SortRule::LargestMagn, 30, 1e-10}, shape);
                                 }});
            }
    {
        const int n = 6;
        auto mk = [n]() { return std::make_shared<Held<DenseSymMatProd<Real>>>(instance("laplace", n, true)); };
        cases.push_back({"shared-operator/SymEigsSolver", [=]() { shared_op_case<SymEigsSolver<DenseSymMatProd<Real>>, decltype(mk), false>(mk, n, 2, 4, Args{SortRule::LargestAlge, 30, 1e-10}); }});
        auto mkg = [n]() { return std::make_shared<Held<DenseGenMatProd<Real>>>(instance("int", n, false)); };
        cases.push_back({"shared-operator/GenEigsSolver", [=]() { shared_op_case<GenEigsSolver<DenseGenMatProd<Real>>, decltype(mkg), true>(mkg, n, 2, 5, Args{SortRule::LargestMagn, 30, 1e-10}); }});
    }
    for (const char* k : {"int", "block", "laplace", "tie"})
    {
        std::string kind = k;
        cases.push_back({"shared-operator/SymEigsShiftSolver/" + kind, [kind]() {
                             shared_shift_op_case<SymEigsShiftSolver<DenseSymShiftSolve<Real>>, DenseSymShiftSolve<Real>, false>(instance(kind, 6, true), 6, 2, 4, 0.3, Args{SortRule::LargestMagn, 30, 1e-10});
                         }});
        cases.push_back({"shared-operator/GenEigsRealShiftSolver/" + kind, [kind]() {
                             shared_shift_op_case<GenEigsRealShiftSolver<DenseGenRealShiftSolve<Real>>, DenseGenRealShiftSolve<Real>, true>(instance(kind, 6, false), 6, 2, 5, 0.3, Args{SortRule::LargestMagn, 30, 1e-10});
                         }});
    }
    cases.push_back({"operator-untouched/complex-shift", []() { complex_shift_case(6); }});
    cases.push_back({"operator-untouched/real-shifts", []() { probes_case(6); }});
    cases.push_back({"svd/tall", []() { svd_case(7, 5); }});
    cases.push_back({"svd/wide", []() { svd_case(5, 7); }});
    cases.push_back({"svd/square", []() { svd_case(6, 6); }});
    cases.push_back({"fault-shift/SymEigsShiftSolver/laplace/faults1", []() {
                         fault_shift_case<SymEigsShiftSolver<FaultyOp<DenseSymShiftSolve<Real>>>, DenseSymShiftSolve<Real>, false>(instance("laplace", 6, true), 6, 2, 4, 0.3, Args{SortRule::LargestMagn, 10, 1e-10});
                     }});
    cases.push_back({"fault-shift/GenEigsRealShiftSolver/int/faults1", []() {
                         fault_shift_case<GenEigsRealShiftSolver<FaultyOp<DenseGenRealShiftSolve<Real>>>, DenseGenRealShiftSolve<Real>, true>(instance("int", 6, false), 6, 2, 5, 0.3, Args{SortRule::LargestMagn, 10, 1e-10});
                     }});
    for (int nf = 1; nf <= 2; nf++)
    {
        std::string t = "/faults" + std::to_string(nf);
        cases.push_back({"fault/SymEigsSolver/laplace" + t, [nf]() {
                             fault_case<SymEigsSolver<FaultyOp<DenseSymMatProd<Real>>>, DenseSymMatProd<Real>, false>(instance("laplace", 6, true), 6, 2, 4, Args{SortRule::LargestAlge, 10, 1e-10}, nf);
                         }});
        cases.push_back({"fault/SymEigsSolver/block" + t, [nf]() {
                             fault_case<SymEigsSolver<FaultyOp<DenseSymMatProd<Real>>>, DenseSymMatProd<Real>, false>(instance("block", 6, true), 6, 2, 4, Args{SortRule::LargestAlge, 10, 1e-10}, nf);
                         }});
        cases.push_back({"fault/GenEigsSolver/int" + t, [nf]() {
                             fault_case<GenEigsSolver<FaultyOp<DenseGenMatProd<Real>>>, DenseGenMatProd<Real>, true>(instance("int", 6, false), 6, 2, 5, Args{SortRule::LargestMagn, 10, 1e-10}, nf);
                         }});
    }
#endif  // C13_AUDIT_ONLY
    return sym::run_main(argc, argv, cases);
}
