// C13: the auditing-operator instance runs of c06_poison.cpp as a translation unit of their own (only SymEigsSolver / GenEigsSolver
// over the dense product wrappers are instantiated), so that the sanitizer build of the quick tier stays short.
#define C13_AUDIT_ONLY
#include "c06_poison.cpp"
