// C08 leaf kernels, real code, all paths:
//   UpperHessenbergQR<S>::compute_rotation / stable_scaling          (contract K5 of DESIGN.md section 5)
//   DoubleShiftQR<S>::stable_norm3, stable_scaling(x1,x2,x3), compute_reflector
#include "symx_eigen.h"
#include <Spectra/LinAlg/UpperHessenbergQR.h>
#include <Spectra/LinAlg/DoubleShiftQR.h>

using sym::Real;
using z3::expr;
using z3::implies;

static Real taylor_tol() { return Real(1e-4) * sym::prof_epsilon(); }
static Real cutoff() { return Real(0.1 * std::pow(sym::prof_epsilon().value(), 0.25)); }

// |a - b| <= tol * scale   as a term
static expr close(const Real& a, const Real& b, const Real& scale)
{
    return sym::le(sym::abs(a - b), taylor_tol() * scale);
}

static void rotation_case()
{
    Real x = sym::fresh("x"), y = sym::fresh("y");
    Real r, c, s;
    Spectra::UpperHessenbergQR<Real>::compute_rotation(x, y, r, c, s);
    Real zero(0), one(1);
    // ratio of the smaller to the larger magnitude decides whether the code may approximate
    Real ax = sym::abs(x), ay = sym::abs(y);
    Real mx = sym::smax(ax, ay), mn = sym::smin(ax, ay);
    expr taylor = sym::lt(zero, mx) && sym::lt(mn, cutoff() * mx);
    Real n2 = x * x + y * y;
    sym::check("r>=0", sym::le(zero, r));
    sym::check("c^2+s^2=1", sym::eq(c * c + s * s, one) || (taylor && close(c * c + s * s, one, one)));
    sym::check("r^2=x^2+y^2", sym::eq(r * r, n2) || (taylor && close(r * r, n2, n2)));
    sym::check("c*x-s*y=r", sym::eq(c * x - s * y, r) || (taylor && close(c * x - s * y, r, r)));
    sym::check("s*x+c*y=0", sym::eq(s * x + c * y, zero));
    sym::check("y=0 => s=0,c=+-1", implies(sym::eq(y, zero), sym::eq(s, zero) && sym::eq(c * c, one)));
    sym::check("x=y=0 => c=1", implies(sym::eq(y, zero) && sym::eq(x, zero), sym::eq(c, one)));
    sym::check("x=0,y!=0 => c=0,s=-sign(y)", implies(sym::eq(x, zero) && sym::ne(y, zero), sym::eq(c, zero) && sym::eq(s * y, -ay)));
    sym::check("sign(c)=sign(x)", sym::le(zero, c * x));
    sym::check("sign(s)=-sign(y)", sym::le(s * y, zero));
    sym::witness("end");
}

// DoubleShiftQR leaves
static void norm3_case()
{
    Real x1 = sym::fresh("x1"), x2 = sym::fresh("x2"), x3 = sym::fresh("x3");
    Real r = Spectra::DoubleShiftQR<Real>::stable_norm3(x1, x2, x3);
    Real n2 = x1 * x1 + x2 * x2 + x3 * x3;
    Real zero(0);
    Real m = sym::smax(sym::smax(sym::abs(x1), sym::abs(x2)), sym::abs(x3));
    Real near0 = sym::prof_min() * Real(10);
    sym::check("r>=0", sym::le(zero, r));
    // below near_0 the function returns 0 by design (documented threshold); otherwise exact or Taylor
    sym::check("r^2=sum", sym::eq(r * r, n2) || close(r * r, n2, n2) || (sym::lt(m, near0) && sym::eq(r, zero)));
    sym::witness("end");
}

static void scaling3_case()
{
    // precondition: |x1| >= |x2|, |x3| and x1 != 0
    Real x1 = sym::fresh("x1"), x2 = sym::fresh("x2"), x3 = sym::fresh("x3");
    sym::assume(sym::ne(x1, Real(0)));
    sym::assume(sym::le(sym::abs(x2), sym::abs(x1)) && sym::le(sym::abs(x3), sym::abs(x1)));
    Real u1 = x1, u2 = x2, u3 = x3;
    Spectra::DoubleShiftQR<Real>::stable_scaling(u1, u2, u3);
    Real one(1), zero(0);
    Real nn = u1 * u1 + u2 * u2 + u3 * u3;
    sym::check("unit", sym::eq(nn, one) || close(nn, one, one));
    // parallel to x with a positive factor: u_i * x_j == u_j * x_i and u1*x1 > 0
    sym::check("parallel12", sym::eq(u1 * x2, u2 * x1));
    sym::check("parallel13", sym::eq(u1 * x3, u3 * x1));
    sym::check("parallel23", sym::eq(u2 * x3, u3 * x2));
    sym::check("same-direction", sym::lt(zero, u1 * x1));
    sym::witness("end");
}

// compute_reflector, whole, on three symbolic inputs (DESIGN.md C08: the Householder property is decided here
// directly where the solver manages it; entries are reported separately)
static void reflector_case(bool third_zero)
{
    Real x1 = sym::fresh("x1"), x2 = sym::fresh("x2"), x3 = third_zero ? Real(0) : sym::fresh("x3");
    Spectra::DoubleShiftQR<Real> qr(4);
    qr.m_ref_u.resize(3, 4);
    qr.m_ref_nr.resize(4);
    for (int i = 0; i < 3; i++)
        for (int j = 0; j < 4; j++)
            qr.m_ref_u(i, j) = Real(777);  // sentinel: must not be read when nr says so
    qr.compute_reflector(x1, x2, x3, 1);
    int nr = qr.m_ref_nr[1];
    Real near0 = sym::prof_min() * Real(10);
    Real zero(0), one(1);
    sym::note("nr", std::to_string(nr));
    if (nr == 1)
    {
        sym::check("nr=1 only if x2,x3 negligible", sym::lt(sym::abs(x2), near0) && sym::lt(sym::abs(x3), near0));
        sym::witness("end");
        return;
    }
    Real u0 = qr.m_ref_u(0, 1), u1 = qr.m_ref_u(1, 1), u2 = qr.m_ref_u(2, 1);
    if (nr == 2)
    {
        sym::check("nr=2 only if x3 negligible", sym::lt(sym::abs(x3), near0));
        // u2 is read by apply_PX(Scalar*, ...) even when nr == 2 ("has been set to zero")
        sym::check("u2=0 when nr=2", sym::eq(u2, x3) || sym::eq(u2, zero) || sym::lt(sym::abs(u2), near0));
    }
    Real nn = u0 * u0 + u1 * u1 + (nr == 3 ? u2 * u2 : zero);
    sym::check("unit", sym::eq(nn, one) || close(nn, one, one));
    // P x = x - 2 u (u'x) must be a multiple of e1:  components 2,3 vanish (to the Taylor tolerance, relative to |x|)
    Real ux = u0 * x1 + u1 * x2 + (nr == 3 ? u2 * x3 : zero);
    Real p2 = x2 - Real(2) * u1 * ux;
    Real p3 = (nr == 3) ? Real(x3 - Real(2) * u2 * ux) : zero;
    Real p1 = x1 - Real(2) * u0 * ux;
    Real xn2 = x1 * x1 + x2 * x2 + (nr == 3 ? x3 * x3 : zero);
    Real big = Real(1e3);  // tolerance multiplier: the error of two Taylor leaves compounds
    sym::check("(Px)_2=0", sym::eq(p2, zero) || sym::le(p2 * p2, big * taylor_tol() * xn2));
    if (nr == 3)
        sym::check("(Px)_3=0", sym::eq(p3, zero) || sym::le(p3 * p3, big * taylor_tol() * xn2));
    sym::check("(Px)_1^2=|x|^2", sym::eq(p1 * p1, xn2) || close(p1 * p1, xn2, big * xn2));
    sym::witness("end");
}

int main(int argc, char** argv)
{
    std::vector<sym::Case> cases;
    cases.push_back({"rotation/compute_rotation", rotation_case});
    cases.push_back({"dsqr/stable_norm3", norm3_case});
    cases.push_back({"dsqr/stable_scaling3", scaling3_case});
    cases.push_back({"dsqr/compute_reflector/x3=0", []() { reflector_case(true); }});
    cases.push_back({"dsqr/compute_reflector/general", []() { reflector_case(false); }});
    return sym::run_main(argc, argv, cases);
}
