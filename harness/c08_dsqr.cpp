// C08: DoubleShiftQR::compute / update_block / apply_PX / apply_XP / apply_QtY / apply_YQ / matrix_QtHQ, real code,
// with compute_reflector replaced by its contract (checked on the real compute_reflector in c08_refl.cpp).
#include "symx_eigen.h"
#include <Spectra/LinAlg/DoubleShiftQR.h>

using sym::Real;
using symx::RMat;
using symx::RVec;
using z3::expr;

static int g_refl = 0;

namespace Spectra {
// contract: nr = 1 iff x2 = x3 = 0; nr = 2 iff x3 = 0; else 3.  u unit, u2 = 0 when nr = 2, (I - 2uu')x parallel to e1.
template <>
void DoubleShiftQR<Real>::compute_reflector(const Real& x1, const Real& x2, const Real& x3, Index ind)
{
    g_refl++;
    bool z2 = (x2 == Real(0)), z3 = (x3 == Real(0));
    if (z2 && z3)
    {
        m_ref_nr[ind] = 1;
        return;
    }
    m_ref_nr[ind] = z3 ? 2 : 3;
    std::string k = std::to_string(g_refl);
    Real u0 = sym::fresh("u0_" + k), u1 = sym::fresh("u1_" + k), u2 = z3 ? Real(0) : sym::fresh("u2_" + k);
    sym::assume(sym::eq(u0 * u0 + u1 * u1 + u2 * u2, Real(1)));
    Real ux = u0 * x1 + u1 * x2 + u2 * x3;
    sym::assume(sym::eq(x2, Real(2) * u1 * ux));
    if (!z3)
        sym::assume(sym::eq(x3, Real(2) * u2 * ux));
    m_ref_u(0, ind) = u0;
    m_ref_u(1, ind) = u1;
    m_ref_u(2, ind) = u2;
}
}  // namespace Spectra

static void dsqr_case(int n, const std::string& zp, bool big_entries)
{
    g_refl = 0;
    RMat H(n, n);
    for (int i = 0; i < n; i++)
        for (int j = 0; j < n; j++)
        {
            if (i > j + 1)
                H(i, j) = sym::fresh("junk_" + std::to_string(i) + "_" + std::to_string(j));  // documented as ignored
            else if (i == j + 1 && (int) zp.size() > j && zp[j] == '0')
                H(i, j) = Real(0);
            else
                H(i, j) = sym::fresh("h_" + std::to_string(i) + "_" + std::to_string(j));
        }
    if (big_entries)
        // sub-diagonals clearly not negligible: skips the deflation forks (they are explored in the other cases)
        for (int i = 0; i + 1 < n; i++)
            if (H(i + 1, i).is_sym())
                sym::assume(sym::lt(sym::abs(H(i, i)) + sym::abs(H(i + 1, i + 1)), sym::abs(H(i + 1, i))));
    Real s = sym::fresh("s"), t = sym::fresh("t");
    Spectra::DoubleShiftQR<Real> qr(H, s, t);
    const Real eps = sym::prof_epsilon();
    const Real eps_abs = sym::prof_min() * Real(10) * (Real(double(n)) / eps);
    // reference Hessenberg matrix after the documented deflation of negligible sub-diagonal entries
    RMat Hh = H;
    for (int i = 0; i < n; i++)
        for (int j = 0; j < n; j++)
            if (i > j + 1)
                Hh(i, j) = Real(0);
    for (int i = 0; i + 1 < n; i++)
        if (Hh(i + 1, i).is_sym())
        {
            Real h = sym::abs(Hh(i + 1, i));
            Hh(i + 1, i) = sym::ite(sym::le(h, eps_abs) || sym::le(h, eps * (sym::abs(H(i, i)) + sym::abs(H(i + 1, i + 1)))), Real(0), Hh(i + 1, i));
        }
    RMat Q = RMat::Identity(n, n);
    qr.apply_YQ(Q);
    {
        sym::Scope sc("Q'Q=I");
        symx::check_mat_eq("QtQ", RMat(Q.transpose() * Q), RMat::Identity(n, n));
    }
    RMat dest;
    qr.matrix_QtHQ(dest);
    RMat ref = Q.transpose() * Hh * Q;
    {
        sym::Scope sc("QtHQ");
        for (int i = 0; i < n; i++)
            for (int j = 0; j < n; j++)
            {
                std::string nm = "QtHQ(" + std::to_string(i) + "," + std::to_string(j) + ")";
                if (i > j + 1)
                {
                    sym::check_eq(nm + ":hessenberg", dest(i, j), Real(0));
                    sym::check_eq(nm + ":ref-hessenberg", ref(i, j), Real(0));
                }
                else if (i == j + 1 && !dest(i, j).is_sym())
                {
                    // result deflation path: entry zeroed; the reference must be zero or negligible by the documented rule
                    Real a = sym::abs(ref(i, j));
                    if (!getenv("VERIF_DEFLATED_OBLIGATIONS"))
                        sym::note("skipped", "result-deflation tolerance obligation (thorough tier only)");
                    else
                    sym::check(nm + ":deflated", sym::eq(dest(i, j), Real(0)) &&
                                   (sym::eq(ref(i, j), Real(0)) || sym::le(a, eps_abs) || sym::le(a, eps * (sym::abs(dest(j, j)) + sym::abs(dest(i, i))))));
                }
                else
                    sym::check_eq(nm, dest(i, j), ref(i, j));
            }
    }
    if (!getenv("VERIF_C08_FIRSTCOL"))
        sym::note("skipped", "first-column obligations (thorough tier only)");
    else
    {
        // first column of Q parallel to (H^2 - sH + tI) e1
        sym::Scope sc("first column");
        RMat M = Hh * Hh - s * Hh + t * RMat::Identity(n, n);
        for (int i = 0; i < n; i++)
            for (int j = i + 1; j < n; j++)
                sym::check_eq("q1 x m1 (" + std::to_string(i) + "," + std::to_string(j) + ")", Q(i, 0) * M(j, 0), Q(j, 0) * M(i, 0));
    }
    {
        sym::Scope sc("apply");
        RVec y = symx::fresh_vec("y", n), y1 = y;
        qr.apply_QtY(y1);
        symx::check_mat_eq("QtY", y1, RVec(Q.transpose() * y));
        RMat Z = symx::fresh_mat("Z", 2, n), Z1 = Z;
        qr.apply_YQ(Z1);
        symx::check_mat_eq("YQ", Z1, RMat(Z * Q));
    }
    sym::witness("end");
}

int main(int argc, char** argv)
{
    std::vector<sym::Case> cases;
    for (int n = 3; n <= 5; n++)
    {
        cases.push_back({"dsqr/n" + std::to_string(n) + "/unreduced", [n]() { dsqr_case(n, "", true); }});
        cases.push_back({"dsqr/n" + std::to_string(n) + "/deflation-forks", [n]() { dsqr_case(n, "", false); }});
    }
    cases.push_back({"dsqr/n3/zero0", []() { dsqr_case(3, "0", true); }});
    cases.push_back({"dsqr/n3/zero1", []() { dsqr_case(3, "10", true); }});
    cases.push_back({"dsqr/n3/zero01", []() { dsqr_case(3, "00", true); }});
    cases.push_back({"dsqr/n4/zero0", []() { dsqr_case(4, "011", true); }});
    cases.push_back({"dsqr/n4/zero1", []() { dsqr_case(4, "101", true); }});
    cases.push_back({"dsqr/n4/zero2", []() { dsqr_case(4, "110", true); }});
    cases.push_back({"dsqr/n4/zero02", []() { dsqr_case(4, "010", true); }});
    return sym::run_main(argc, argv, cases);
}
