// C11 (and the operator identities of C03): the built-in matrix-operation wrappers, real code, symbolic matrices.
// The designated triangle holds the symmetric matrix, every entry of the other triangle is an independent junk symbol.
#include "symx_eigen.h"
#include <Eigen/Sparse>
#include <Eigen/SparseLU>
#include <Eigen/SparseCholesky>
#include <Eigen/IterativeLinearSolvers>
#include <Spectra/Util/CompInfo.h>
#include <Spectra/MatOp/DenseGenMatProd.h>
#include <Spectra/MatOp/DenseSymMatProd.h>
#include <Spectra/MatOp/DenseHermMatProd.h>
#include <Spectra/MatOp/SparseGenMatProd.h>
#include <Spectra/MatOp/SparseSymMatProd.h>
#include <Spectra/MatOp/SparseHermMatProd.h>
#include <Spectra/MatOp/DenseSymShiftSolve.h>
#include <Spectra/MatOp/SparseSymShiftSolve.h>
#include <Spectra/MatOp/DenseGenRealShiftSolve.h>
#include <Spectra/MatOp/SparseGenRealShiftSolve.h>
#include <Spectra/MatOp/DenseGenComplexShiftSolve.h>
#include <Spectra/MatOp/SparseGenComplexShiftSolve.h>
#include <Spectra/MatOp/DenseCholesky.h>
#include <Spectra/MatOp/SparseCholesky.h>
#include <Spectra/MatOp/SparseRegularInverse.h>
#include <Spectra/MatOp/SymShiftInvert.h>

using sym::Real;
using symx::CMat;
using symx::CReal;
using symx::CVec;
using symx::RMat;
using symx::RVec;
using namespace Spectra;

template <int Flags>
using DMat = Eigen::Matrix<Real, Eigen::Dynamic, Eigen::Dynamic, Flags>;
template <int Flags, typename SI>
using SMat = Eigen::SparseMatrix<Real, Flags, SI>;

struct Tri
{
    RMat S;  // the symmetric matrix the wrapper is documented to see
    RMat D;  // the stored matrix: designated triangle from S, other triangle junk
};
static Tri make_tri(const std::string& nm, int n, int uplo, bool numeric = false)
{
    Tri t;
    t.S = RMat(n, n);
    t.D = RMat(n, n);
    for (int i = 0; i < n; i++)
        for (int j = 0; j <= i; j++)
        {
            std::string ij = std::to_string(i) + "_" + std::to_string(j);
            // numeric variant: a fixed SPD matrix with exactly representable entries (diagonally dominant)
            Real a = numeric ? Real(i == j ? 4.0 + i : 1.0 / (1 << (i + j))) : sym::fresh(nm + "_" + ij);
            t.S(i, j) = a;
            t.S(j, i) = a;
            Real junk = (i == j) ? a : sym::fresh("junk_" + nm + "_" + ij);
            if (uplo == Eigen::Lower)
            {
                t.D(i, j) = a;
                t.D(j, i) = junk;
            }
            else
            {
                t.D(j, i) = a;
                t.D(i, j) = junk;
            }
        }
    return t;
}
template <int Flags, typename SI>
static SMat<Flags, SI> to_sparse(const RMat& D)
{
    SMat<Flags, SI> s(D.rows(), D.cols());
    std::vector<Eigen::Triplet<Real, SI>> tr;
    for (int i = 0; i < D.rows(); i++)
        for (int j = 0; j < D.cols(); j++)
            tr.emplace_back((SI) i, (SI) j, D(i, j));
    s.setFromTriplets(tr.begin(), tr.end());
    s.makeCompressed();
    return s;
}
static void no_junk(const std::string& what, const RVec& y)
{
    bool clean = true;
    for (int i = 0; i < y.size(); i++)
        if (sym::mentions(y[i], "junk_"))
            clean = false;
    sym::expect(what + ": other triangle not read", clean, "result mentions an entry of the non-designated triangle");
}
template <typename Op>
static RVec apply(const Op& op, const RVec& x)
{
    RVec y(op.rows());
    op.perform_op(x.data(), y.data());
    return y;
}

// ---------------------------------------------------------------- products
template <int Flags>
static void dense_gen_prod(int n)
{
    DMat<Flags> A = symx::fresh_mat("A", n, n);
    RVec x = symx::fresh_vec("x", n);
    DenseGenMatProd<Real, Flags> op(A);
    symx::check_mat_eq("y=Ax", apply(op, x), RVec(RMat(A) * x));
    RMat X = symx::fresh_mat("X", n, 2);
    symx::check_mat_eq("op*X", RMat(op * X), RMat(RMat(A) * X));
    for (int i = 0; i < n; i++)
        for (int j = 0; j < n; j++)
            sym::expect("op(i,j)", op(i, j).id == A(i, j).id, "coefficient access");
    sym::expect("rows/cols", op.rows() == n && op.cols() == n, "shape");
    sym::witness("end");
}
template <int Uplo, int Flags>
static void dense_sym_prod(int n)
{
    Tri t = make_tri("a", n, Uplo);
    DMat<Flags> A = t.D;
    RVec x = symx::fresh_vec("x", n);
    DenseSymMatProd<Real, Uplo, Flags> op(A);
    RVec y = apply(op, x);
    symx::check_mat_eq("y=sym(A)x", y, RVec(t.S * x));
    no_junk("perform_op", y);
    RMat X = symx::fresh_mat("X", n, 2);
    symx::check_mat_eq("op*X", RMat(op * X), RMat(t.S * X));
    sym::witness("end");
}
template <int Flags, typename SI>
static void sparse_gen_prod(int n)
{
    RMat A = symx::fresh_mat("A", n, n);
    auto As = to_sparse<Flags, SI>(A);
    RVec x = symx::fresh_vec("x", n);
    SparseGenMatProd<Real, Flags, SI> op(As);
    symx::check_mat_eq("y=Ax", apply(op, x), RVec(A * x));
    RMat X = symx::fresh_mat("X", n, 2);
    symx::check_mat_eq("op*X", RMat(op * X), RMat(A * X));
    sym::witness("end");
}
template <int Uplo, int Flags, typename SI>
static void sparse_sym_prod(int n)
{
    Tri t = make_tri("a", n, Uplo);
    auto As = to_sparse<Flags, SI>(t.D);
    RVec x = symx::fresh_vec("x", n);
    SparseSymMatProd<Real, Uplo, Flags, SI> op(As);
    RVec y = apply(op, x);
    symx::check_mat_eq("y=sym(A)x", y, RVec(t.S * x));
    no_junk("perform_op", y);
    RMat X = symx::fresh_mat("X", n, 2);
    symx::check_mat_eq("op*X", RMat(op * X), RMat(t.S * X));
    sym::witness("end");
}
// Hermitian products (complex scalars)
template <int Uplo, bool Sparse>
static void herm_prod(int n)
{
    CMat H(n, n), D(n, n);
    for (int i = 0; i < n; i++)
        for (int j = 0; j <= i; j++)
        {
            std::string ij = std::to_string(i) + "_" + std::to_string(j);
            CReal a(sym::fresh("re_" + ij), i == j ? Real(0) : sym::fresh("im_" + ij));
            H(i, j) = a;
            H(j, i) = std::conj(a);
            CReal junk(sym::fresh("junk_re_" + ij), sym::fresh("junk_im_" + ij));
            if (Uplo == Eigen::Lower)
            {
                D(i, j) = a;
                D(j, i) = (i == j) ? a : junk;
            }
            else
            {
                D(j, i) = std::conj(a);
                D(i, j) = (i == j) ? a : junk;
            }
        }
    CVec x(n), y(n);
    for (int i = 0; i < n; i++)
        x[i] = CReal(sym::fresh("xr_" + std::to_string(i)), sym::fresh("xi_" + std::to_string(i)));
    if (Sparse)
    {
        Eigen::SparseMatrix<CReal> Ds = D.sparseView();
        SparseHermMatProd<CReal, Uplo> op(Ds);
        op.perform_op(x.data(), y.data());
    }
    else
    {
        DenseHermMatProd<CReal, Uplo> op(D);
        op.perform_op(x.data(), y.data());
    }
    CVec ref = H * x;
    bool clean = true;
    for (int i = 0; i < n; i++)
    {
        sym::check_eq("Re y[" + std::to_string(i) + "]", y[i].real(), ref[i].real());
        sym::check_eq("Im y[" + std::to_string(i) + "]", y[i].imag(), ref[i].imag());
        if (sym::mentions(y[i].real(), "junk_") || sym::mentions(y[i].imag(), "junk_"))
            clean = false;
    }
    sym::expect("other triangle not read", clean, "result mentions the non-designated triangle");
    sym::witness("end");
}

// ---------------------------------------------------------------- shift solves
template <int Uplo, int Flags, typename SI>
static void sparse_sym_shift(int n)
{
    Tri t = make_tri("a", n, Uplo);
    auto As = to_sparse<Flags, SI>(t.D);
    Real sigma = sym::fresh("sigma");
    RVec x = symx::fresh_vec("x", n);
    SparseSymShiftSolve<Real, Uplo, Flags, SI> op(As);
    try
    {
        op.set_shift(sigma);
    }
    catch (const std::invalid_argument&)
    {
        sym::note("set_shift", "threw");
        sym::witness("end-threw");
        return;
    }
    RVec y = apply(op, x);
    symx::check_mat_eq("(A-sI)y=x", RVec((t.S - sigma * RMat::Identity(n, n)) * y), x);
    no_junk("perform_op", y);
    sym::witness("end");
}
template <int Flags, bool Sparse>
static void gen_real_shift(int n)
{
    RMat A = symx::fresh_mat("A", n, n);
    Real sigma = sym::fresh("sigma");
    RVec x = symx::fresh_vec("x", n), y;
    // domain: sigma is not an eigenvalue of A (a zero pivot means A - sigma I is singular): definedness is assumed
    sym::DefScope dom(sym::Def::Assume);
    try
    {
        if (Sparse)
        {
            auto As = to_sparse<Flags, int>(A);
            SparseGenRealShiftSolve<Real, Flags> op(As);
            op.set_shift(sigma);
            y = apply(op, x);
        }
        else
        {
            DMat<Flags> Ad = A;
            DenseGenRealShiftSolve<Real, Flags> op(Ad);
            op.set_shift(sigma);
            y = apply(op, x);
        }
    }
    catch (const std::invalid_argument&)
    {
        sym::note("set_shift", "threw (singular)");
        sym::witness("end-threw");
        return;
    }
    symx::check_mat_eq("(A-sI)y=x", RVec((A - sigma * RMat::Identity(n, n)) * y), x);
    sym::witness("end");
}
template <bool Sparse, bool NumericShift>
static void gen_complex_shift(int n)
{
    RMat A = symx::fresh_mat("A", n, n);
    // NumericShift: sigma = 1/2 + 3/4 i (the sparse LU's pivoting conditions with a symbolic complex shift leave a few
    // residual identities undecided within the solver caps)
    Real sr = NumericShift ? sym::rational(1, 2) : sym::fresh("sigmar"), si = NumericShift ? sym::rational(3, 4) : sym::fresh("sigmai");
    RVec x = symx::fresh_vec("x", n), y;
    CVec z(n);  // the complex solution the wrapper takes the real part of (read through -fno-access-control)
    sym::DefScope dom(sym::Def::Assume);  // domain: sigma is not an eigenvalue
    try
    {
        if (Sparse)
        {
            auto As = to_sparse<Eigen::ColMajor, int>(A);
            SparseGenComplexShiftSolve<Real> op(As);
            op.set_shift(sr, si);
            y = apply(op, x);
            z = op.m_solver.solve(op.m_x_cache);
        }
        else
        {
            DenseGenComplexShiftSolve<Real> op(A);
            op.set_shift(sr, si);
            y = apply(op, x);
            z = op.m_solver.solve(op.m_x_cache);
        }
    }
    catch (const sym::EigenAssert&)
    {
        // SparseLU refuses to solve after a failed factorization (singular A - sigma I): outside the wrapper's domain
        sym::note("solve", "factorization failed (singular)");
        sym::witness("end-singular");
        return;
    }
    // (A - sigma I) z = x with x real, and y = Re z
    for (int i = 0; i < n; i++)
    {
        Real re(0), im(0);
        for (int j = 0; j < n; j++)
        {
            Real ar = A(i, j) - (i == j ? sr : Real(0)), ai = (i == j) ? Real(-si) : Real(0);
            re = re + ar * z[j].real() - ai * z[j].imag();
            im = im + ar * z[j].imag() + ai * z[j].real();
        }
        sym::check_identity("Re[(A-sI)z]=x[" + std::to_string(i) + "]", re, x[i]);
        sym::check_identity("Im[(A-sI)z]=0[" + std::to_string(i) + "]", im, Real(0));
        sym::check_identity("y=Re z[" + std::to_string(i) + "]", y[i], z[i].real());
    }
    sym::witness("end");
}

// ---------------------------------------------------------------- Cholesky wrappers
template <int Uplo, int Flags, bool Sparse>
static void cholesky(int n)
{
    Tri t = make_tri("b", n, Uplo);
    RVec x = symx::fresh_vec("x", n), y = symx::fresh_vec("y", n);
    RVec lx(n), ly(n), ulx(n), uly(n);
    CompInfo info;
    if (Sparse)
    {
        auto Bs = to_sparse<Flags, int>(t.D);
        SparseCholesky<Real, Uplo, Flags> op(Bs);
        info = op.info();
        if (info == CompInfo::Successful)
        {
            op.lower_triangular_solve(x.data(), lx.data());
            op.lower_triangular_solve(y.data(), ly.data());
            op.upper_triangular_solve(lx.data(), ulx.data());
            op.upper_triangular_solve(ly.data(), uly.data());
        }
    }
    else
    {
        DMat<Flags> Bd = t.D;
        DenseCholesky<Real, Uplo, Flags> op(Bd);
        info = op.info();
        if (info == CompInfo::Successful)
        {
            op.lower_triangular_solve(x.data(), lx.data());
            op.lower_triangular_solve(y.data(), ly.data());
            op.upper_triangular_solve(lx.data(), ulx.data());
            op.upper_triangular_solve(ly.data(), uly.data());
        }
    }
    sym::note("info", info == CompInfo::Successful ? "Successful" : "NumericalIssue");
    if (info != CompInfo::Successful)
    {
        sym::witness("end-not-spd");
        return;
    }
    // L^{-T} L^{-1} = B^{-1}
    symx::check_mat_eq("B*(L^-T L^-1 x)=x", RVec(t.S * ulx), x);
    // <L^{-1}x, L^{-1}y> = x' B^{-1} y
    sym::check_eq("(L^-1 x).(L^-1 y)=x'B^-1 y", lx.dot(ly), x.dot(uly));
    no_junk("lower_triangular_solve", lx);
    no_junk("upper_triangular_solve", ulx);
    if (!Sparse)
    {
        // triangularity: component i of L^{-1}x depends on x_0..x_i only
        bool tri = true;
        for (int i = 0; i < n; i++)
            for (int j = i + 1; j < n; j++)
                if (sym::mentions(lx[i], "x_" + std::to_string(j)))
                    tri = false;
        sym::expect("L^-1 is lower triangular", tri, "component depends on a later entry of x");
    }
    sym::witness("end");
}

// ---------------------------------------------------------------- regular inverse (CG back end)
template <int Uplo>
static void regular_inverse_product(int n)
{
    Tri t = make_tri("b", n, Uplo);
    auto Bs = to_sparse<Eigen::ColMajor, int>(t.D);
    SparseRegularInverse<Real, Uplo> op(Bs);
    RVec x = symx::fresh_vec("x", n);
    RVec y = apply(op, x);
    symx::check_mat_eq("y=Bx", y, RVec(t.S * x));
    no_junk("perform_op", y);
    sym::witness("end");
}
// triangle non-interference of solve(): designated triangle and x numeric, the other triangle junk symbols
template <int Uplo>
static void regular_inverse_solve_taint(int n)
{
    Tri t = make_tri("b", n, Uplo, true);
    auto Bs = to_sparse<Eigen::ColMajor, int>(t.D);
    sym::set_taint_prefix("junk_", "solve(): no branch depends on the other triangle");
    SparseRegularInverse<Real, Uplo> op(Bs);
    RVec x(n), y(n);
    for (int i = 0; i < n; i++)
        x[i] = Real(1.0 + i);
    op.solve(x.data(), y.data());
    no_junk("solve", y);
    // all data numeric: the result is a concrete vector; compare with the exact solution to CG's tolerance
    bool ok = true;
    Eigen::MatrixXd Sd(n, n);
    Eigen::VectorXd xd(n), yd(n);
    for (int i = 0; i < n; i++)
    {
        xd[i] = x[i].value();
        if (y[i].is_sym())
            ok = false;
        else
            yd[i] = y[i].value();
        for (int j = 0; j < n; j++)
            Sd(i, j) = t.S(i, j).value();
    }
    if (ok)
        ok = (Sd * yd - xd).norm() <= 1e-8 * xd.norm();
    sym::expect("solve(): B y = x on the designated triangle", ok, "CG result does not solve the system defined by the designated triangle");
    sym::witness("end");
}

// ---------------------------------------------------------------- SymShiftInvert
template <bool AS, bool BS, int UploA, int UploB, int FlagsA = Eigen::ColMajor, int FlagsB = Eigen::ColMajor, typename SIA = int, typename SIB = int>
static void sym_shift_invert(int n)
{
    Tri a = make_tri("a", n, UploA), b = make_tri("b", n, UploB);
    Real sigma = sym::fresh("sigma");
    RVec x = symx::fresh_vec("x", n), y(n);
    using TA = typename std::conditional<AS, Eigen::Sparse, Eigen::Dense>::type;
    using TB = typename std::conditional<BS, Eigen::Sparse, Eigen::Dense>::type;
    using Op = SymShiftInvert<Real, TA, TB, UploA, UploB, FlagsA, FlagsB, SIA, SIB>;
    auto run = [&](auto& A, auto& B) {
        Op op(A, B);
        try
        {
            op.set_shift(sigma);
        }
        catch (const std::invalid_argument&)
        {
            sym::note("set_shift", "threw");
            return false;
        }
        op.perform_op(x.data(), y.data());
        return true;
    };
    bool ok;
    DMat<FlagsA> Ad = a.D;
    DMat<FlagsB> Bd = b.D;
    auto As = to_sparse<FlagsA, SIA>(a.D);
    auto Bs = to_sparse<FlagsB, SIB>(b.D);
    if constexpr (AS && BS)
        ok = run(As, Bs);
    else if constexpr (AS && !BS)
        ok = run(As, Bd);
    else if constexpr (!AS && BS)
        ok = run(Ad, Bs);
    else
        ok = run(Ad, Bd);
    if (!ok)
    {
        sym::witness("end-threw");
        return;
    }
    symx::check_mat_eq("(A-sB)y=x", RVec((a.S - sigma * b.S) * y), x);
    no_junk("perform_op", y);
    sym::witness("end");
}

// ---------------------------------------------------------------- non-square input
template <typename F>
static void expect_invalid(const std::string& what, F f)
{
    bool threw = false;
    try
    {
        f();
    }
    catch (const std::invalid_argument&)
    {
        threw = true;
    }
    sym::expect(what + ": non-square matrix rejected with invalid_argument", threw, "accepted a non-square matrix");
}
static void nonsquare_case(int r, int c)
{
    RMat A = symx::fresh_mat("A", r, c);
    Eigen::SparseMatrix<Real> As = to_sparse<Eigen::ColMajor, int>(A);
    expect_invalid("DenseSymShiftSolve", [&]() { DenseSymShiftSolve<Real> op(A); });
    expect_invalid("DenseGenRealShiftSolve", [&]() { DenseGenRealShiftSolve<Real> op(A); });
    expect_invalid("DenseGenComplexShiftSolve", [&]() { DenseGenComplexShiftSolve<Real> op(A); });
    expect_invalid("DenseCholesky", [&]() { DenseCholesky<Real> op(A); });
    expect_invalid("SparseSymShiftSolve", [&]() { SparseSymShiftSolve<Real> op(As); });
    expect_invalid("SparseGenRealShiftSolve", [&]() { SparseGenRealShiftSolve<Real> op(As); });
    expect_invalid("SparseGenComplexShiftSolve", [&]() { SparseGenComplexShiftSolve<Real> op(As); });
    expect_invalid("SparseCholesky", [&]() { SparseCholesky<Real> op(As); });
    expect_invalid("SparseRegularInverse", [&]() { SparseRegularInverse<Real> op(As); });
    RMat B = symx::fresh_mat("B", r, r);
    expect_invalid("SymShiftInvert", [&]() { SymShiftInvert<Real, Eigen::Dense, Eigen::Dense> op(A, B); });
    sym::witness("end");
}

// ---------------------------------------------------------------- the matrix argument passed as a block, a Map or an expression
// (the wrappers take `const Eigen::Ref<const Matrix>&`: a block / Map is referenced in place with its strides, an expression is
// evaluated into a temporary owned by the Ref)
static void arg_kind_case(int n, const std::string& kind)
{
    RVec x = symx::fresh_vec("x", n);
    if (kind == "block")
    {
        // the operand is the interior n x n block of a larger matrix whose border is junk
        RMat big = symx::fresh_mat("junk_border", n + 2, n + 3);
        RMat A = symx::fresh_mat("A", n, n);
        big.block(1, 2, n, n) = A;
        DenseGenMatProd<Real> op(big.block(1, 2, n, n));
        RVec y = apply(op, x);
        symx::check_mat_eq("block: y=Ax", y, RVec(A * x));
        no_junk("block", y);
        Tri t = make_tri("s", n, Eigen::Lower);
        big.block(1, 2, n, n) = t.D;
        DenseSymMatProd<Real, Eigen::Lower> ops(big.block(1, 2, n, n));
        RVec ys = apply(ops, x);
        symx::check_mat_eq("block: y=sym(A)x", ys, RVec(t.S * x));
        no_junk("block sym", ys);
    }
    else if (kind == "map")
    {
        std::vector<Real> buf((n + 1) * n + 3);
        for (size_t i = 0; i < buf.size(); i++)
            buf[i] = sym::fresh("junk_buf" + std::to_string(i));
        RMat A = symx::fresh_mat("A", n, n);
        // column-major data with an outer stride of n+1 inside a larger buffer
        for (int j = 0; j < n; j++)
            for (int i = 0; i < n; i++)
                buf[1 + j * (n + 1) + i] = A(i, j);
        Eigen::Map<const RMat, 0, Eigen::OuterStride<>> M(buf.data() + 1, n, n, Eigen::OuterStride<>(n + 1));
        DenseGenMatProd<Real> op(M);
        RVec y = apply(op, x);
        symx::check_mat_eq("map: y=Ax", y, RVec(A * x));
        no_junk("map", y);
        Real sigma = sym::fresh("sigma");
        sym::DefScope dom(sym::Def::Assume);  // sigma is not an eigenvalue (see gen_real_shift)
        DenseGenRealShiftSolve<Real> sol(M);
        sol.set_shift(sigma);
        RVec z = apply(sol, x);
        symx::check_mat_eq("map: (A-sI)z=x", RVec((A - sigma * RMat::Identity(n, n)) * z), x);
        no_junk("map solve", z);
    }
    else  // expression
    {
        RMat A = symx::fresh_mat("A", n, n), B = symx::fresh_mat("B", n, n);
        DenseGenMatProd<Real> op(A + B * Real(2));
        RVec y = apply(op, x);
        symx::check_mat_eq("expression: y=(A+2B)x", y, RVec((A + B * Real(2)) * x));
        Tri t = make_tri("s", n, Eigen::Upper);
        Real sigma = sym::fresh("sigma");
        RMat D = t.D;
        sym::DefScope dom(sym::Def::Assume);  // sigma is not an eigenvalue (see gen_real_shift)
        DenseSymShiftSolve<Real, Eigen::Upper> sol(D + RMat::Zero(n, n));  // a true expression: evaluated into the Ref's own temporary
        try
        {
            sol.set_shift(sigma);
        }
        catch (const std::invalid_argument&)
        {
            sym::witness("end-singular");  // exactly singular shifted matrix: refused (decided under C10)
            return;
        }
        RVec z = apply(sol, x);
        symx::check_mat_eq("expression: (sym(A)-sI)z=x", RVec((t.S - sigma * RMat::Identity(n, n)) * z), x);
        no_junk("expression solve", z);
    }
    sym::witness("end");
}

#define L Eigen::Lower
#define U Eigen::Upper
#define CM Eigen::ColMajor
#define RM Eigen::RowMajor

int main(int argc, char** argv)
{
    std::vector<sym::Case> cases;
    for (int n = 2; n <= 3; n++)
    {
        std::string sn = "/n" + std::to_string(n);
        auto add = [&](const std::string& nm, std::function<void(int)> f) { cases.push_back({nm + sn, [f, n]() { f(n); }}); };
        for (const char* k : {"block", "map", "expression"})
        {
            std::string kind = k;
            add("argument-kind/" + kind, [kind](int nn) { arg_kind_case(nn, kind); });
        }
        add("DenseGenMatProd/col", dense_gen_prod<CM>);
        add("DenseGenMatProd/row", dense_gen_prod<RM>);
        add("DenseSymMatProd/lower/col", dense_sym_prod<L, CM>);
        add("DenseSymMatProd/upper/col", dense_sym_prod<U, CM>);
        add("DenseSymMatProd/lower/row", dense_sym_prod<L, RM>);
        add("DenseSymMatProd/upper/row", dense_sym_prod<U, RM>);
        add("SparseGenMatProd/col/int", sparse_gen_prod<CM, int>);
        add("SparseGenMatProd/row/long", sparse_gen_prod<RM, long>);
        add("SparseSymMatProd/lower/col/int", sparse_sym_prod<L, CM, int>);
        add("SparseSymMatProd/upper/col/int", sparse_sym_prod<U, CM, int>);
        add("SparseSymMatProd/lower/row/long", sparse_sym_prod<L, RM, long>);
        add("SparseSymMatProd/upper/row/long", sparse_sym_prod<U, RM, long>);
        add("DenseHermMatProd/lower", herm_prod<L, false>);
        add("DenseHermMatProd/upper", herm_prod<U, false>);
        add("SparseHermMatProd/lower", herm_prod<L, true>);
        add("SparseHermMatProd/upper", herm_prod<U, true>);
        add("SparseSymShiftSolve/lower/col", sparse_sym_shift<L, CM, int>);
        add("SparseSymShiftSolve/upper/col", sparse_sym_shift<U, CM, int>);
        add("SparseSymShiftSolve/upper/row/long", sparse_sym_shift<U, RM, long>);
        add("DenseGenRealShiftSolve/col", gen_real_shift<CM, false>);
        add("DenseGenRealShiftSolve/row", gen_real_shift<RM, false>);
        add("SparseGenRealShiftSolve/col", gen_real_shift<CM, true>);
        add("SparseGenRealShiftSolve/row", gen_real_shift<RM, true>);
        add("DenseGenComplexShiftSolve/symbolic-shift", gen_complex_shift<false, false>);
        add("DenseGenComplexShiftSolve/numeric-shift", gen_complex_shift<false, true>);
        add("SparseGenComplexShiftSolve/symbolic-shift", gen_complex_shift<true, false>);
        add("SparseGenComplexShiftSolve/numeric-shift", gen_complex_shift<true, true>);
        add("DenseCholesky/lower/col", cholesky<L, CM, false>);
        add("DenseCholesky/upper/col", cholesky<U, CM, false>);
        add("DenseCholesky/upper/row", cholesky<U, RM, false>);
        add("SparseCholesky/lower/col", cholesky<L, CM, true>);
        add("SparseCholesky/upper/col", cholesky<U, CM, true>);
        add("SparseCholesky/upper/row", cholesky<U, RM, true>);
        add("SparseRegularInverse/product/lower", regular_inverse_product<L>);
        add("SparseRegularInverse/product/upper", regular_inverse_product<U>);
        add("SparseRegularInverse/solve-taint/lower", regular_inverse_solve_taint<L>);
        add("SparseRegularInverse/solve-taint/upper", regular_inverse_solve_taint<U>);
        // SymShiftInvert: dense/sparse x dense/sparse x Lower/Upper x Lower/Upper
        add("SymShiftInvert/dd/LL", sym_shift_invert<false, false, L, L>);
        add("SymShiftInvert/dd/LU", sym_shift_invert<false, false, L, U>);
        add("SymShiftInvert/dd/UL", sym_shift_invert<false, false, U, L>);
        add("SymShiftInvert/dd/UU", sym_shift_invert<false, false, U, U>);
        add("SymShiftInvert/ds/LL", sym_shift_invert<false, true, L, L>);
        add("SymShiftInvert/ds/LU", sym_shift_invert<false, true, L, U>);
        add("SymShiftInvert/ds/UL", sym_shift_invert<false, true, U, L>);
        add("SymShiftInvert/ds/UU", sym_shift_invert<false, true, U, U>);
        add("SymShiftInvert/sd/LL", sym_shift_invert<true, false, L, L>);
        add("SymShiftInvert/sd/LU", sym_shift_invert<true, false, L, U>);
        add("SymShiftInvert/sd/UL", sym_shift_invert<true, false, U, L>);
        add("SymShiftInvert/sd/UU", sym_shift_invert<true, false, U, U>);
        add("SymShiftInvert/ss/LL", sym_shift_invert<true, true, L, L>);
        add("SymShiftInvert/ss/LU", sym_shift_invert<true, true, L, U>);
        add("SymShiftInvert/ss/UL", sym_shift_invert<true, true, U, L>);
        add("SymShiftInvert/ss/UU", sym_shift_invert<true, true, U, U>);
        // storage orders / index types (a sample of the 64 combinations; the thorough tier runs them at n = 3 too)
        add("SymShiftInvert/dd/LU/row-col", sym_shift_invert<false, false, L, U, RM, CM>);
        add("SymShiftInvert/dd/UL/col-row", sym_shift_invert<false, false, U, L, CM, RM>);
        add("SymShiftInvert/ds/UL/row-row/long", sym_shift_invert<false, true, U, L, RM, RM, int, long>);
        add("SymShiftInvert/sd/LU/row-row/long", sym_shift_invert<true, false, L, U, RM, RM, long, int>);
        add("SymShiftInvert/ss/UL/row-row/long", sym_shift_invert<true, true, U, L, RM, RM, long, long>);
        add("SymShiftInvert/ss/LU/col-col/long", sym_shift_invert<true, true, L, U, CM, CM, long, long>);
    }
    for (int r = 1; r <= 4; r++)
        for (int c = 1; c <= 4; c++)
            if (r != c)
                cases.push_back({"nonsquare/" + std::to_string(r) + "x" + std::to_string(c), [r, c]() { nonsquare_case(r, c); }});
    return sym::run_main(argc, argv, cases);
}
