// Mode A stubs for the general (nonsymmetric) solver glue: the real GenEigsBase / GenEigsSolver / GenEigsRealShiftSolver /
// SortEigenvalue / Arnoldi::compress_H code runs on top of
//   K2  UpperHessenbergEigen<sym::Real>   fresh complex Ritz data: real values carry the concrete imaginary part 0, complex
//                                         ones come as adjacent exact conjugates (positive imaginary part first); the
//                                         real/complex pattern is a nondeterministic choice (explored exhaustively)
//   K3  Arnoldi::init / factorize_from / compress_V
//   K4  UpperHessenbergQR<sym::Real>, DoubleShiftQR<sym::Real>: record the shift, return a fresh Hessenberg Q'HQ
#pragma once
#include "symx_eigen.h"
#include <Spectra/LinAlg/UpperHessenbergEigen.h>
#include <Spectra/LinAlg/UpperHessenbergQR.h>
#include <Spectra/LinAlg/DoubleShiftQR.h>
#include <Spectra/MatOp/internal/ArnoldiOp.h>
#include <Spectra/Util/CompInfo.h>
#include <Spectra/Util/SelectionRule.h>
#include <Spectra/Util/SimpleRandom.h>

namespace stubs {
using sym::Real;
using symx::CMat;
using symx::CReal;
using symx::CVec;
using symx::RMat;
using symx::RVec;

struct AbstractOp
{
    using Scalar = Real;
    int n;
    mutable int applied = 0;
    mutable int shift_sets = 0;
    explicit AbstractOp(int n_) : n(n_) {}
    Eigen::Index rows() const { return n; }
    Eigen::Index cols() const { return n; }
    void perform_op(const Real*, Real*) const { applied++; }
    void set_shift(const Real&) { shift_sets++; }
};

struct Shift
{
    bool dbl;
    Real a, b;  // single: a = mu ; double: a = s, b = t
};

struct GState
{
    int gen = 0, valid_k = -1, restarts = 0, eig_calls = 0, eig_gen = -1;
    long true_ops = 0;
    CVec theta;
    CMat Z;
    std::vector<Shift> cur_shifts;                // shifts applied since the last compress_V
    std::vector<std::vector<Shift>> shifts;       // per restart
    std::vector<int> restart_k;                   // per restart: dimension kept
    std::vector<CVec> ritz_at_restart;            // per restart: the solver's sorted Ritz values the shifts were taken from
    std::vector<std::string> precondition_violations;
    const CVec* solver_ritz = nullptr;
    Spectra::SortRule selection = Spectra::SortRule::LargestMagn;
    bool no_foreign_ties = true;  // assumption: no exact tie in the selection key between a complex Ritz value and a non-partner
    bool full_space_exact = true;
    void reset() { *this = GState(); }
};
inline GState& gst()
{
    static GState s;
    return s;
}
inline std::string tag(const char* what, int g) { return std::string(what) + "g" + std::to_string(g); }
inline void fresh_hessenberg(RMat& H, int from, int to, int g)
{
    // columns [from, to): fresh upper-Hessenberg entries (sub-diagonal >= 0: a norm, or 0 after a breakdown)
    for (int j = from; j < to; j++)
        for (int i = 0; i <= j + 1 && i < H.rows(); i++)
        {
            if (i == j + 1)
                continue;
            H(i, j) = sym::fresh(tag("h", g) + "_" + std::to_string(i) + "_" + std::to_string(j));
        }
    for (int j = std::max(from, 1); j < to; j++)
        H(j, j - 1) = sym::fresh(tag("subd", g) + "_" + std::to_string(j), sym::NONNEG);
}
inline Real key_of(Spectra::SortRule r, const CReal& x)
{
    using Spectra::SortRule;
    switch (r)
    {
        case SortRule::LargestMagn: return -(x.real() * x.real() + x.imag() * x.imag());
        case SortRule::SmallestMagn: return x.real() * x.real() + x.imag() * x.imag();
        case SortRule::LargestReal: return -x.real();
        case SortRule::SmallestReal: return x.real();
        case SortRule::LargestImag: return -sym::abs(x.imag());
        case SortRule::SmallestImag: return sym::abs(x.imag());
        default: throw std::logic_error("no key");
    }
}
inline bool gen_rule_ok(Spectra::SortRule r)
{
    using Spectra::SortRule;
    return r == SortRule::LargestMagn || r == SortRule::LargestReal || r == SortRule::LargestImag || r == SortRule::SmallestMagn ||
        r == SortRule::SmallestReal || r == SortRule::SmallestImag;
}
}  // namespace stubs

namespace Spectra {
// ---------------- K2 ----------------
template <>
class UpperHessenbergEigen<sym::Real>
{
    using Matrix = symx::RMat;
    symx::CVec m_evals;
    symx::CMat m_evecs;

public:
    UpperHessenbergEigen() {}
    UpperHessenbergEigen(const Eigen::Ref<const Matrix>& mat) { compute(mat); }
    void compute(const Eigen::Ref<const Matrix>& mat)
    {
        stubs::GState& s = stubs::gst();
        const int n = mat.rows();
        s.eig_calls++;
        s.eig_gen = s.gen;
        m_evals.resize(n);
        m_evecs.resize(n, n);
        std::string g = "e" + std::to_string(s.eig_calls);
        std::vector<int> partner(n, -1);
        for (int i = 0; i < n;)
        {
            bool pair = (i + 1 < n) && sym::choose("pair" + g + "_" + std::to_string(i));
            if (pair)
            {
                sym::Real re = sym::fresh("re" + g + "_" + std::to_string(i));
                sym::Real im = sym::fresh("im" + g + "_" + std::to_string(i), sym::NONNEG | sym::NONZERO);
                m_evals[i] = symx::CReal(re, im);
                m_evals[i + 1] = symx::CReal(re, -im);
                partner[i] = i + 1;
                partner[i + 1] = i;
                i += 2;
            }
            else
            {
                m_evals[i] = symx::CReal(sym::fresh("re" + g + "_" + std::to_string(i)), sym::Real(0));
                i++;
            }
        }
        for (int i = 0; i < n; i++)
            for (int j = 0; j < n; j++)
                m_evecs(i, j) = symx::CReal(sym::fresh("zr" + g + "_" + std::to_string(i) + "_" + std::to_string(j)),
                                            sym::fresh("zi" + g + "_" + std::to_string(i) + "_" + std::to_string(j)));
        if (s.no_foreign_ties && stubs::gen_rule_ok(s.selection))
            for (int i = 0; i < n; i++)
                if (partner[i] >= 0)
                    for (int o = 0; o < n; o++)
                        if (o != i && o != partner[i] && !(partner[o] >= 0 && o > partner[o] && false))
                            sym::assume(sym::ne(stubs::key_of(s.selection, m_evals[i]), stubs::key_of(s.selection, m_evals[o])));
        s.theta = m_evals;
        s.Z = m_evecs;
    }
    const symx::CVec& eigenvalues() const { return m_evals; }
    symx::CMat eigenvectors() { return m_evecs; }
};

// ---------------- K4 ----------------
template <>
class UpperHessenbergQR<sym::Real>
{
    using Matrix = symx::RMat;
    Eigen::Index m_n;
    bool m_computed = false;

public:
    UpperHessenbergQR(Eigen::Index size) : m_n(size) {}
    virtual ~UpperHessenbergQR() {}
    virtual void compute(const Eigen::Ref<const Matrix>& mat, const sym::Real& shift = sym::Real(0))
    {
        m_n = mat.rows();
        m_computed = true;
        stubs::gst().cur_shifts.push_back({false, shift, sym::Real(0)});
    }
    void apply_YQ(Eigen::Ref<Matrix>) const
    {
        if (!m_computed)
            throw std::logic_error("UpperHessenbergQR: need to call compute() first");
    }
    virtual void matrix_QtHQ(Matrix& dest) const
    {
        if (!m_computed)
            throw std::logic_error("UpperHessenbergQR: need to call compute() first");
        stubs::GState& s = stubs::gst();
        s.gen++;
        s.valid_k = -1;
        dest.resize(m_n, m_n);
        dest.setZero();
        stubs::fresh_hessenberg(dest, 0, (int) m_n, s.gen);
    }
};
template <>
class DoubleShiftQR<sym::Real>
{
    using Matrix = symx::RMat;
    Eigen::Index m_n;
    bool m_computed = false;

public:
    DoubleShiftQR(Eigen::Index size) : m_n(size) {}
    void compute(const Eigen::Ref<const Matrix>& mat, const sym::Real& s, const sym::Real& t)
    {
        m_n = mat.rows();
        m_computed = true;
        stubs::gst().cur_shifts.push_back({true, s, t});
    }
    void apply_YQ(Eigen::Ref<Matrix>) const
    {
        if (!m_computed)
            throw std::logic_error("DoubleShiftQR: need to call compute() first");
    }
    void matrix_QtHQ(Matrix& dest) const
    {
        if (!m_computed)
            throw std::logic_error("DoubleShiftQR: need to call compute() first");
        stubs::GState& s = stubs::gst();
        s.gen++;
        s.valid_k = -1;
        dest.resize(m_n, m_n);
        dest.setZero();
        stubs::fresh_hessenberg(dest, 0, (int) m_n, s.gen);
    }
};
}  // namespace Spectra

#include <Spectra/LinAlg/Arnoldi.h>

namespace Spectra {
using GAOpT = ArnoldiOp<sym::Real, stubs::AbstractOp, IdentityBOp>;

template <>
void Arnoldi<sym::Real, GAOpT>::init(MapConstVec& v0, Index& op_counter)
{
    stubs::GState& s = stubs::gst();
    m_fac_V.resize(m_n, m_m);
    m_fac_H.resize(m_m, m_m);
    m_fac_f.resize(m_n);
    m_fac_H.setZero();
    const RealScalar v0norm = m_op.norm(v0);
    if (v0norm < m_near_0)
        throw std::invalid_argument("initial residual vector cannot be zero");
    s.gen++;
    for (Index i = 0; i < m_n; i++)
        for (Index j = 0; j < m_m; j++)
            m_fac_V(i, j) = sym::fresh(stubs::tag("V", s.gen) + "_" + std::to_string(i) + "_" + std::to_string(j));
    m_fac_H(0, 0) = sym::fresh(stubs::tag("h", s.gen) + "_0_0");
    for (Index i = 0; i < m_n; i++)
        m_fac_f[i] = sym::fresh(stubs::tag("f", s.gen) + "_" + std::to_string(i));
    m_beta = sym::fresh(stubs::tag("beta", s.gen), sym::NONNEG);
    op_counter += 2;
    s.true_ops = 2;
    m_k = 1;
    s.valid_k = 1;
}

template <>
void Arnoldi<sym::Real, GAOpT>::factorize_from(Index from_k, Index to_m, Index& op_counter)
{
    stubs::GState& s = stubs::gst();
    if (to_m <= from_k)
        return;
    if (from_k > m_k)
        throw std::invalid_argument("Arnoldi: from_k is larger than the current subspace dimension");
    if (s.valid_k != from_k)
        s.precondition_violations.push_back("factorize_from(from_k=" + std::to_string(from_k) + ") on a factorization valid at k=" +
                                            std::to_string(s.valid_k) + " (m_k=" + std::to_string(m_k) + ")");
    s.gen++;
    m_fac_H.rightCols(m_m - from_k).setZero();
    m_fac_H.block(from_k, 0, m_m - from_k, from_k).setZero();
    stubs::fresh_hessenberg(m_fac_H, (int) from_k, (int) to_m, s.gen);
    for (Index i = 0; i < m_n; i++)
        for (Index j = from_k; j < to_m; j++)
            m_fac_V(i, j) = sym::fresh(stubs::tag("V", s.gen) + "_" + std::to_string(i) + "_" + std::to_string(j));
    for (Index i = 0; i < m_n; i++)
        m_fac_f[i] = sym::fresh(stubs::tag("f", s.gen) + "_" + std::to_string(i));
    if (to_m == m_n && s.full_space_exact)
        m_beta = sym::Real(0);
    else
        m_beta = sym::fresh(stubs::tag("beta", s.gen), sym::NONNEG);
    op_counter += (to_m - from_k);
    s.true_ops += (to_m - from_k);
    m_k = to_m;
    s.valid_k = (int) to_m;
}

template <>
template <>
void Arnoldi<sym::Real, GAOpT>::compress_V<symx::RMat>(const Eigen::MatrixBase<symx::RMat>& Q)
{
    stubs::GState& s = stubs::gst();
    if (m_k < 1 || m_k >= m_m)
        throw sym::EigenAssert("compress_V: kept dimension k=" + std::to_string(m_k) + " outside [1, m-1]");
    (void) Q;
    s.gen++;
    for (Index i = 0; i < m_n; i++)
        for (Index j = 0; j <= m_k; j++)
            m_fac_V(i, j) = sym::fresh(stubs::tag("V", s.gen) + "_" + std::to_string(i) + "_" + std::to_string(j));
    for (Index i = 0; i < m_n; i++)
        m_fac_f[i] = sym::fresh(stubs::tag("f", s.gen) + "_" + std::to_string(i));
    m_beta = sym::fresh(stubs::tag("beta", s.gen), sym::NONNEG);
    s.restart_k.push_back((int) m_k);
    s.shifts.push_back(s.cur_shifts);
    s.cur_shifts.clear();
    if (s.solver_ritz)
        s.ritz_at_restart.push_back(*s.solver_ritz);
    s.restarts++;
    s.valid_k = (int) m_k;
}
}  // namespace Spectra

#include <Spectra/GenEigsSolver.h>
#include <Spectra/GenEigsRealShiftSolver.h>
