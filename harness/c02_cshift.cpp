// C02: GenEigsComplexShiftSolver::sort_ritzpair - the real back-transformation and root selection, run from an arbitrary Ritz state.
// The solver iterates with Re[(A - sigma I)^{-1}], whose eigenvalue for an eigenpair (lambda, v) of A is
//     nu = (1/(lambda - sigma) + 1/(lambda - conj sigma)) / 2,
// a quadratic in lambda: the real code computes both roots and decides between them by probing the operator at a REAL shift r:
// (A - r I)^{-1} v = v / (lambda - r) holds for the true root only.  Here lambda_true is symbolic (complex or real), sigma is one of a
// few fixed complex shifts, nu is computed from lambda_true, v = e_1 + i e_2 with V = I, and the user's operator is a specification
// stub: after set_shift(r, 0) it returns Re / Im of v / (lambda_true - r) for the two probe solves (exactly what a correct
// shift-solve wrapper returns for an exact eigenvector).  Obligations: the value handed back is lambda_true (never the mirror root
// sigma_r + sigma_i^2 / (lambda_true - sigma_r)), a complex value is followed by its exact conjugate, a real one has imaginary part
// exactly 0, the operator's shift is restored to sigma afterwards, and the probe is not made at Re sigma or Re sigma +- Im sigma - real
// numbers the property explicitly allows to be eigenvalues of A while sigma is admissible (a probe there divides by a singular matrix).
// For every other probe value the definedness of the probe solve is the genericity assumption the library itself makes.
#include "symx_eigen.h"
#include <complex>

using sym::Real;
using symx::CReal;
using symx::RMat;
using symx::RVec;

// principal complex square root as a contract: w^2 = z, Re w >= 0 (the code uses +w and -w symmetrically)
static int g_csqrt = 0;
namespace std {
template <>
complex<Real> sqrt<Real>(const complex<Real>& z)
{
    if (!z.real().is_sym() && !z.imag().is_sym())
    {
        std::complex<double> w = std::sqrt(std::complex<double>(z.real().value(), z.imag().value()));
        return complex<Real>(Real(w.real()), Real(w.imag()));
    }
    if (!z.imag().is_sym() && z.imag().value() == 0.0)
    {
        // real argument: +sqrt(z) for z >= 0, i sqrt(-z) otherwise (one real radical)
        if (z.real() >= Real(0))
            return complex<Real>(sym::sqrt(z.real()), Real(0));
        return complex<Real>(Real(0), sym::sqrt(Real(0) - z.real()));
    }
    std::string k = std::to_string(++g_csqrt);
    Real wr = sym::fresh("sqrt_re" + k, sym::NONNEG), wi = sym::fresh("sqrt_im" + k);
    sym::assume(sym::eq(wr * wr - wi * wi, z.real()));
    sym::assume(sym::eq(Real(2) * wr * wi, z.imag()));
    return complex<Real>(wr, wi);
}
}  // namespace std

#include <Spectra/Util/SimpleRandom.h>
namespace Spectra {
// environment stub (as in c07_krylov.cpp): the generator's state transition is the real code, a draw is mapped to a small dyadic
// rational in (-0.5, 0.5) (C19 decides that every real draw lies in that interval); keeps the probe shift a small rational
template <>
struct RandomScalar<Real>
{
    static Real run(long& seed)
    {
        seed = next_long_rand(seed);
        return sym::rational(2 * (seed % 8) + 1 - 8, 16);  // odd/16 in (-0.5, 0.5): never exactly 0 (a draw of exactly 0 has probability ~2^-31 in the real generator)
    }
};
}  // namespace Spectra
#include <Spectra/GenEigsComplexShiftSolver.h>

using namespace Spectra;

struct ProbeOp
{
    using Scalar = Real;
    int n;
    mutable Real sr, si;          // shift currently installed
    mutable int shift_sets = 0;
    mutable int applied = 0;
    CReal lambda_true;
    Real other_eig;               // an arbitrary further real eigenvalue of A
    Real sigr_, sigi_;            // the shift of the problem
    std::vector<CReal> v;         // the eigenvector the probes are applied to
    Eigen::Index rows() const { return n; }
    Eigen::Index cols() const { return n; }
    void set_shift(const Real& r, const Real& i)
    {
        sr = r;
        si = i;
        shift_sets++;
    }
    void perform_op(const Real* x, Real* y) const
    {
        // only meaningful at a real shift (the probe): y = (A - r I)^{-1} x for x = Re v (even calls) / Im v (odd calls)
        sym::expect("probe solves are made at a real shift", !si.is_sym() && si.value() == 0.0, "imaginary part of the probe shift is not 0");
        sym::Scope sc("probe solve (A - r I)^{-1}");
        sym::DefScope ds(sym::Def::Assume);  // lambda_true != r: part of the same genericity assumption
        // (A - r I) must be nonsingular: r differs from EVERY eigenvalue of A, not only from the probed one.  That no fixed probe can
        // guarantee; what the property does say is which real numbers MAY be eigenvalues although sigma is admissible: Re sigma and
        // Re sigma +- Im sigma (its quantifier names them).  A probe at one of those is a violation; for any other probe value the
        // definedness of the probe solve is the (listed) genericity assumption - so a different seed or another generic formula for
        // the probe raises no alarm.
        sym::check("probe shift is none of Re sigma, Re sigma +- Im sigma (values the property allows as eigenvalues of A)",
                   sym::ne(sr, sigr_) && sym::ne(sr, sigr_ + sigi_) && sym::ne(sr, sigr_ - sigi_));
        sym::assume(sym::ne(sr, other_eig), "the probe shift actually used is not an eigenvalue of A");
        CReal d = lambda_true - CReal(sr, Real(0));
        Real den = d.real() * d.real() + d.imag() * d.imag();
        for (int k = 0; k < n; k++)
        {
            // v_k / d = v_k * conj(d) / |d|^2 ; the division is undefined exactly when the probe shift is the eigenvalue
            CReal q = v[k] * std::conj(d);
            Real re = q.real() / den, im = q.imag() / den;
            y[k] = (applied % 2 == 0) ? re : im;
        }
        applied++;
    }
};

static void cshift_case(double sigr, double sigi, bool real_lambda)
{
    const int n = 3, nev = 1, ncv = 3;
    g_csqrt = 0;
    ProbeOp op;
    op.n = n;
    Real sigmar(sigr), sigmai(sigi);
    // complex case: the imaginary part is a fixed rational (3/2), the real part symbolic - with both parts symbolic the root-selection
    // obligations stay undecided (complex square root contract + two free reals)
    CReal lam(sym::fresh("lambda_re"), real_lambda ? Real(0) : sym::rational(3, 2));
    op.lambda_true = lam;
    op.v = {CReal(Real(1), Real(0)), CReal(Real(0), Real(1)), CReal(Real(0), Real(0))};
    // the library's own probe shift (fixed seed): the one genericity assumption
    op.sigr_ = sigmar;
    op.sigi_ = sigmai;
    op.other_eig = sym::fresh("other_eigenvalue");
    // sigma itself is not an eigenvalue (documented precondition); automatically true for sigma_i != 0
    // nu = (mu / (mu^2 + sigma_i^2)), mu = lambda - sigma_r
    CReal mu = lam - CReal(sigmar, Real(0));
    CReal nu;
    {
        sym::DefScope ds(sym::Def::Assume);
        nu = mu / (mu * mu + CReal(sigmai * sigmai, Real(0)));
    }
    sym::assume(sym::ne(nu.real() * nu.real() + nu.imag() * nu.imag(), Real(0)));  // lambda != sigma_r +- i sigma_i ... nu != 0 <=> mu != 0
    // distinct roots: 1 - 4 nu^2 sigma_i^2 != 0 (otherwise both roots coincide and either answer is right)
    GenEigsComplexShiftSolver<ProbeOp> eigs(op, nev, ncv, sigmar, sigmai);
    sym::expect("constructor installs the complex shift once", op.shift_sets == 1 && !op.si.is_sym() && op.si.value() == sigi, "set_shift calls: " + std::to_string(op.shift_sets));
    eigs.m_ritz_val.resize(ncv);
    eigs.m_ritz_val[0] = nu;
    eigs.m_ritz_val[1] = real_lambda ? CReal(sym::fresh("other_re"), Real(0)) : std::conj(nu);
    eigs.m_ritz_val[2] = CReal(sym::fresh("other2_re"), Real(0));
    eigs.m_ritz_vec.resize(ncv, nev);
    eigs.m_ritz_vec(0, 0) = CReal(Real(1), Real(0));
    eigs.m_ritz_vec(1, 0) = CReal(Real(0), Real(1));
    eigs.m_ritz_vec(2, 0) = CReal(Real(0), Real(0));
    eigs.m_fac.m_fac_V = RMat::Identity(n, ncv);
    eigs.m_ritz_conv.resize(nev);
    eigs.m_ritz_conv[0] = true;
    {
        sym::DefScope ds(sym::Def::Assume);  // divisions inside the library's root formulas: nu != 0, roots != probe shift (assumed; the probe solve itself is checked in the stub)
        eigs.sort_ritzpair(SortRule::LargestMagn);
    }
    sym::note("probe shift", op.applied ? "applied" : "none");
    sym::expect("two probe solves per Ritz pair", op.applied == 2, "applied=" + std::to_string(op.applied));
    sym::expect("the shift installed at construction is in force again", op.shift_sets == 3 && !op.sr.is_sym() && op.sr.value() == sigr && !op.si.is_sym() && op.si.value() == sigi,
                "shift after sort_ritzpair: (" + std::to_string(op.sr.is_sym() ? -1.0 : op.sr.value()) + ", " + std::to_string(op.si.is_sym() ? -1.0 : op.si.value()) + ")");
    CReal got = eigs.m_ritz_val[0];
    // either root is right when they coincide; otherwise the true one must be returned
    CReal mirror = CReal(sigmar, Real(0)) + CReal(sigmai * sigmai, Real(0)) / mu;
    z3::expr coincide = sym::eq(mirror.real(), lam.real()) && sym::eq(mirror.imag(), lam.imag());
    sym::check("returned eigenvalue is the true one, not its mirror image (real part)", coincide || sym::eq(got.real(), lam.real()));
    if (real_lambda)
        sym::expect("a real eigenvalue is reported with imaginary part exactly 0", !got.imag().is_sym() && got.imag().value() == 0.0, "imaginary part is a term");
    else
    {
        sym::check("returned eigenvalue is the true one (imaginary part)", coincide || sym::eq(got.imag(), lam.imag()));
        CReal c = eigs.m_ritz_val[1];
        sym::check_eq("followed by its conjugate (re)", c.real(), got.real());
        sym::check_eq("followed by its conjugate (im)", c.imag(), Real(0) - got.imag());
    }
    sym::witness("end");
}

int main(int argc, char** argv)
{
    std::vector<sym::Case> cases;
    const double sig[][2] = {{0.5, 0.75}, {0.0, 1.0}, {-2.0, 0.5}};
    for (auto& s : sig)
    {
        double a = s[0], b = s[1];
        std::string t = "/sigma_" + std::to_string(a).substr(0, 5) + "_" + std::to_string(b).substr(0, 4);
        cases.push_back({"cshift/real-lambda" + t, [a, b]() { cshift_case(a, b, true); }});
        cases.push_back({"cshift/complex-lambda" + t, [a, b]() { cshift_case(a, b, false); }});
    }
    return sym::run_main(argc, argv, cases);
}
