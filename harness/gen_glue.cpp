// Mode A: the real general-solver glue (GenEigsBase::init/compute/restart/num_converged/nev_adjusted/retrieve_ritzpair/
// sort_ritzpair/eigenvalues/eigenvectors, GenEigsRealShiftSolver::sort_ritzpair, SortEigenvalue<complex,...>,
// Arnoldi::compress_H) on top of the stubs of stubs_gen.h.  Serves C02, C04, C05, C12 (rules), C13 (restart indices).
#include "stubs_gen.h"

using namespace Spectra;
using stubs::AbstractOp;
using stubs::gst;
using sym::Real;
using symx::CMat;
using symx::CReal;
using symx::CVec;
using symx::RMat;
using symx::RVec;
using z3::expr;

static const char* rule_name(SortRule r)
{
    switch (r)
    {
        case SortRule::LargestMagn: return "LargestMagn";
        case SortRule::LargestReal: return "LargestReal";
        case SortRule::LargestImag: return "LargestImag";
        case SortRule::LargestAlge: return "LargestAlge";
        case SortRule::SmallestMagn: return "SmallestMagn";
        case SortRule::SmallestReal: return "SmallestReal";
        case SortRule::SmallestImag: return "SmallestImag";
        case SortRule::SmallestAlge: return "SmallestAlge";
        case SortRule::BothEnds: return "BothEnds";
    }
    return "?";
}
static const SortRule all_rules[] = {SortRule::LargestMagn, SortRule::LargestReal, SortRule::LargestImag,
                                     SortRule::LargestAlge, SortRule::SmallestMagn, SortRule::SmallestReal,
                                     SortRule::SmallestImag, SortRule::SmallestAlge, SortRule::BothEnds};

static bool same_real(const Real& a, const Real& b)
{
    if (a.is_sym() != b.is_sym())
        return false;
    if (!a.is_sym())
        return a.value() == b.value();
    return a.id == b.id || Z3_get_ast_id(sym::ctx(), a.term()) == Z3_get_ast_id(sym::ctx(), b.term());
}
static bool same_c(const CReal& a, const CReal& b) { return same_real(a.real(), b.real()) && same_real(a.imag(), b.imag()); }

struct RunCfg
{
    int n, nev, ncv;
    SortRule selection, sorting;
    int maxit;
    bool shift_solver;
    std::string history;
    // 'C' in the history = compute() with these other arguments (a second run on the same object with another rule / maxit)
    SortRule selection2 = SortRule::LargestMagn, sorting2 = SortRule::LargestMagn;
    int maxit2 = 0;
};

template <typename Solver>
static void check_after_compute(Solver& eigs, const RunCfg& cfg, const Real& tol, Eigen::Index ret, const Real& sigma, long ops_before,
                                int restarts_before, const std::string& tagname)
{
    sym::Scope sc(tagname);
    stubs::GState& s = gst();
    const int nev = cfg.nev, ncv = cfg.ncv, n = cfg.n;
    CVec evals = eigs.eigenvalues();
    CMat evecs = eigs.eigenvectors();
    sym::expect("return value == eigenvalues().size()", ret == evals.size(), "ret=" + std::to_string(ret) + " size=" + std::to_string(evals.size()));
    sym::expect("return value == eigenvectors().cols()", ret == evecs.cols(), "ret=" + std::to_string(ret) + " cols=" + std::to_string(evecs.cols()));
    sym::expect("eigenvectors().rows() == n", evecs.rows() == n || evecs.cols() == 0, "rows=" + std::to_string(evecs.rows()));
    sym::expect("return value <= nev", ret <= nev && ret >= 0, "ret=" + std::to_string(ret));
    sym::expect("info()==Successful iff count==nev", (eigs.info() == CompInfo::Successful) == (ret == nev) &&
                    (eigs.info() == CompInfo::Successful || eigs.info() == CompInfo::NotConverging), "info/ret mismatch");
    sym::expect("restarts <= maxit", s.restarts - restarts_before <= cfg.maxit, "restarts=" + std::to_string(s.restarts - restarts_before));
    sym::expect("num_operations()==true applications", eigs.num_operations() == s.true_ops,
                "num_operations=" + std::to_string(eigs.num_operations()) + " true=" + std::to_string(s.true_ops));
    sym::expect("work bound 2+2*ncv*(maxit+1)", s.true_ops - ops_before <= 2 + 2 * (long) ncv * (cfg.maxit + 1),
                "applications in this compute: " + std::to_string(s.true_ops - ops_before));
    sym::expect("user operator untouched by the glue", eigs.m_op.applied == 0, "operator applied outside the kernels");
    for (const std::string& pv : s.precondition_violations)
        sym::fail("kernel precondition (K3)", pv);
    s.precondition_violations.clear();
    for (int m = 0; m <= nev + 1; m++)
    {
        CMat part = eigs.eigenvectors(m);
        int want = std::min<int>(m, (int) ret);
        bool ok = part.cols() == want;
        for (int j = 0; ok && j < want; j++)
            for (int i = 0; i < n; i++)
                if (!same_c(part(i, j), evecs(i, j)))
                    ok = false;
        sym::expect("eigenvectors(" + std::to_string(m) + ") = first min(m,count) columns", ok, "wrong column count or content");
    }
    sym::expect("Ritz data belong to the current factorization", s.eig_gen == s.gen,
                "Ritz data of generation " + std::to_string(s.eig_gen) + ", factorization generation " + std::to_string(s.gen));
    const Real beta = eigs.m_fac.f_norm();
    const RMat& V = eigs.m_fac.matrix_V();
    const Real eps23 = Real(std::pow(sym::prof_epsilon().value(), 2.0 / 3.0));
    std::vector<int> src(ret, -1);
    for (int j = 0; j < (int) ret; j++)
    {
        for (int i = 0; i < ncv && src[j] < 0; i++)
        {
            if (!cfg.shift_solver && same_c(evals[j], s.theta[i]))
                src[j] = i;
            if (cfg.shift_solver)
            {
                sym::DefScope d(sym::Def::Ignore);
                CReal lam = CReal(Real(1), Real(0)) / s.theta[i] + CReal(sigma, Real(0));
                // the library computes Scalar(1) / array + sigma in complex arithmetic; compare by value through the solver
                if (same_c(evals[j], lam))
                    src[j] = i;
            }
        }
        std::string js = "[" + std::to_string(j) + "]";
        if (src[j] < 0 && cfg.shift_solver)
        {
            // fall back to a semantic identification: lambda = sigma + 1/nu for exactly one nu of the latest decomposition
            for (int i = 0; i < ncv && src[j] < 0; i++)
            {
                Real nr = s.theta[i].real(), ni = s.theta[i].imag();
                Real d = nr * nr + ni * ni;
                sym::DefScope dd(sym::Def::Ignore);
                Real lr = nr / d + sigma, li = -ni / d;
                std::vector<std::string> a = sym::symbols_of(evals[j].real()), b = sym::symbols_of(lr);
                if (a == b)
                {
                    bool ok = sym::check_eq("back-transformation Re" + js, evals[j].real(), lr);
                    ok = sym::check_eq("back-transformation Im" + js, evals[j].imag(), li) && ok;
                    if (ok)
                        src[j] = i;
                }
            }
        }
        if (src[j] < 0)
        {
            sym::fail("returned value" + js + " is a current Ritz value", "eigenvalues()" + js + " is not a (back-transformed) Ritz value of the latest decomposition");
            continue;
        }
        sym::pass("returned value" + js + " is a current Ritz value");
        const int i = src[j];
        for (int k = 0; k < j; k++)
            if (src[k] == i)
                sym::fail("distinct pairs", "the same Ritz pair is returned twice");
        // convergence on the current factorization: |est_i| * beta < tol * max(eps23, |theta_i|)   (squared form: no radicals)
        CReal est = s.Z(ncv - 1, i);
        Real est2 = est.real() * est.real() + est.imag() * est.imag();
        Real th2 = s.theta[i].real() * s.theta[i].real() + s.theta[i].imag() * s.theta[i].imag();
        Real lhs2 = est2 * beta * beta;
        Real rhs2 = sym::exact_mul(tol, tol) * sym::smax(sym::exact_mul(eps23, eps23), th2);
        sym::check("returned pair" + js + " passes the convergence test on the current factorization", sym::lt(lhs2, rhs2));
        bool colok = true;
        for (int r = 0; r < n; r++)
        {
            Real accr(0), acci(0);
            for (int c = 0; c < ncv; c++)
            {
                accr = accr + V(r, c) * s.Z(c, i).real();
                acci = acci + V(r, c) * s.Z(c, i).imag();
            }
            if (!same_real(accr, evecs(r, j).real()))
                colok = sym::check_eq("Re eigenvector" + js + "(" + std::to_string(r) + ") = (V z_i)", evecs(r, j).real(), accr) && colok;
            if (!same_real(acci, evecs(r, j).imag()))
                colok = sym::check_eq("Im eigenvector" + js + "(" + std::to_string(r) + ") = (V z_i)", evecs(r, j).imag(), acci) && colok;
        }
        if (colok)
            sym::pass("eigenvector" + js + " = V * z_src");
    }
    for (int j = 0; j + 1 < (int) ret; j++)
        sym::check("values ordered by sorting rule [" + std::to_string(j) + "]",
                   sym::le(stubs::key_of(cfg.sorting, evals[j]), stubs::key_of(cfg.sorting, evals[j + 1])));
    if (eigs.info() == CompInfo::Successful && ret == nev)
    {
        std::vector<int> in(ncv, 0);
        bool all = true;
        for (int j = 0; j < nev; j++)
            if (src[j] >= 0)
                in[src[j]] = 1;
            else
                all = false;
        if (all)
        {
            expr ok = sym::btrue();
            for (int i = 0; i < ncv; i++)
                for (int o = 0; o < ncv; o++)
                    if (in[i] && !in[o])
                        ok = ok && sym::le(stubs::key_of(cfg.selection, s.theta[i]), stubs::key_of(cfg.selection, s.theta[o]));
            sym::check("returned set = top-nev by selection rule (of the iterated spectrum)", ok);
        }
    }
    // shifts: per restart, walking the unwanted tail of the sorted Ritz values
    for (size_t r = 0; r < s.restart_k.size(); r++)
    {
        int k = s.restart_k[r];
        std::string rs = "restart" + std::to_string(r);
        sym::expect(rs + ": nev <= k <= ncv-1", k >= nev && k <= ncv - 1, "k=" + std::to_string(k));
        if (r >= s.ritz_at_restart.size() || r >= s.shifts.size())
            continue;
        const CVec& rv = s.ritz_at_restart[r];
        size_t pos = 0;
        bool ok = true;
        std::string why;
        for (int i = k; i < ncv && ok; i++)
        {
            if (pos >= s.shifts[r].size())
            {
                ok = false;
                why = "fewer shifts than unwanted Ritz values";
                break;
            }
            const stubs::Shift& sh = s.shifts[r][pos++];
            bool cplx = !(!rv[i].imag().is_sym() && rv[i].imag().value() == 0.0);
            if (cplx)
            {
                if (i + 1 >= ncv || !same_real(rv[i + 1].real(), rv[i].real()))
                {
                    ok = false;
                    why = "complex Ritz value at position " + std::to_string(i) + " used without its conjugate partner next to it";
                    break;
                }
                Real s_exp = Real(2) * rv[i].real(), t_exp = rv[i].real() * rv[i].real() + rv[i].imag() * rv[i].imag();
                if (!sh.dbl)
                {
                    ok = false;
                    why = "complex Ritz value applied as a single real shift";
                    break;
                }
                ok = sym::check_eq(rs + ": double shift s = 2 Re mu", sh.a, s_exp) && ok;
                ok = sym::check_eq(rs + ": double shift t = |mu|^2", sh.b, t_exp) && ok;
                i++;
            }
            else
            {
                if (sh.dbl)
                {
                    ok = false;
                    why = "real Ritz value applied as a double shift";
                    break;
                }
                ok = sym::check_eq(rs + ": single shift = mu", sh.a, rv[i].real()) && ok;
            }
        }
        if (ok && pos != s.shifts[r].size())
        {
            ok = false;
            why = "more shifts than unwanted Ritz values";
        }
        sym::expect(rs + ": shifts are exactly the unwanted Ritz values (pairs as double shifts)", ok, why);
        // the conjugate-pair adjustment never splits a pair at the boundary k
        bool split = false;
        if (k >= 1 && k < ncv)
        {
            bool c0 = !(!rv[k - 1].imag().is_sym() && rv[k - 1].imag().value() == 0.0);
            if (c0 && same_real(rv[k - 1].real(), rv[k].real()) && rv[k].imag().is_sym())
                split = true;
        }
        sym::expect(rs + ": kept set does not split a conjugate pair", !split, "pair split at k=" + std::to_string(k));
    }
}

static void glue_case(const RunCfg& cfg)
{
    gst().reset();
    gst().selection = cfg.selection;
    AbstractOp op(cfg.n);
    Real sigma = cfg.shift_solver ? sym::fresh("sigma") : Real(0);
    Real tol(1e-10);
    RVec v0 = RVec::Zero(cfg.n);
    v0[0] = Real(1);
    bool sel_ok = stubs::gen_rule_ok(cfg.selection), sort_ok = stubs::gen_rule_ok(cfg.sorting);
    auto body = [&](auto& eigs) {
        gst().solver_ritz = &eigs.m_ritz_val;
        sym::expect("fresh object: info()==NotComputed", eigs.info() == CompInfo::NotComputed, "info not NotComputed");
        sym::expect("fresh object: accessors empty", eigs.eigenvalues().size() == 0 && eigs.eigenvectors().cols() == 0, "non-empty before compute");
        int step = 0;
        for (char h : cfg.history)
        {
            step++;
            if (h == 'i')
            {
                eigs.init(v0.data());
                sym::expect("after init(): accessors empty", eigs.eigenvalues().size() == 0 && eigs.eigenvectors().cols() == 0, "non-empty after init");
                sym::expect("after init(): num_operations()==true applications", eigs.num_operations() == gst().true_ops, "counter mismatch after init");
                continue;
            }
            RunCfg cur = cfg;
            if (h == 'C')
            {
                cur.selection = cfg.selection2;
                cur.sorting = cfg.sorting2;
                cur.maxit = cfg.maxit2;
            }
            gst().selection = cur.selection;
            long ops_before = gst().true_ops;
            int restarts_before = gst().restarts;
            gst().restart_k.clear();
            gst().shifts.clear();
            gst().ritz_at_restart.clear();
            gst().cur_shifts.clear();
            Eigen::Index ret = -1;
            bool threw = false;
            try
            {
                ret = eigs.compute(cur.selection, cur.maxit, tol, cur.sorting);
            }
            catch (const std::invalid_argument& e)
            {
                threw = true;
            }
            sym::expect("invalid_argument iff a rule is unsupported", threw == !(sel_ok && sort_ok),
                        std::string(threw ? "threw" : "accepted") + " selection=" + rule_name(cur.selection) + " sorting=" + rule_name(cur.sorting));
            if (threw || !(sel_ok && sort_ok))
                break;
            check_after_compute(eigs, cur, tol, ret, sigma, ops_before, restarts_before, "compute#" + std::to_string(step));
        }
    };
    if (cfg.shift_solver)
    {
        GenEigsRealShiftSolver<AbstractOp> eigs(op, cfg.nev, cfg.ncv, sigma);
        sym::expect("constructor installs the shift once", op.shift_sets == 1, "set_shift calls: " + std::to_string(op.shift_sets));
        sym::DefScope d(sym::Def::Assume);
        body(eigs);
    }
    else
    {
        GenEigsSolver<AbstractOp> eigs(op, cfg.nev, cfg.ncv);
        body(eigs);
    }
    sym::witness("end");
}

// C13: restart-size function by state injection: real nev_adjusted() (+ real restart() for ncv <= 5) from an arbitrary
// Ritz state of the shape K2 + sorting can produce (conjugate partners adjacent, either order; real values have imag == 0)
static void nevadj_case(int n, int nev, int ncv, int nconv)
{
    gst().reset();
    AbstractOp op(n);
    GenEigsSolver<AbstractOp> eigs(op, nev, ncv);
    gst().solver_ritz = &eigs.m_ritz_val;
    RVec v0 = RVec::Zero(n);
    v0[0] = Real(1);
    eigs.init(v0.data());
    eigs.m_fac.factorize_from(1, ncv, eigs.m_nmatop);
    for (int i = 0; i < ncv;)
    {
        bool pair = (i + 1 < ncv) && sym::choose("pair_" + std::to_string(i));
        if (pair)
        {
            Real re = sym::fresh("re_" + std::to_string(i));
            Real im = sym::fresh("im_" + std::to_string(i), sym::NONNEG | sym::NONZERO);
            const bool posfirst = (i % 4 == 0);  // either order can follow sorting; the pair tests are symmetric
            eigs.m_ritz_val[i] = posfirst ? CReal(re, im) : CReal(re, -im);
            eigs.m_ritz_val[i + 1] = posfirst ? CReal(re, -im) : CReal(re, im);
            i += 2;
        }
        else
        {
            eigs.m_ritz_val[i] = CReal(sym::fresh("re_" + std::to_string(i)), Real(0));
            i++;
        }
    }
    for (int i = 0; i < ncv; i++)
        eigs.m_ritz_est[i] = CReal(sym::fresh("er_" + std::to_string(i)), sym::fresh("ei_" + std::to_string(i)));
    // assumption (stated in the evidence): no two distinct conjugate pairs coincide exactly.  Without it the solver finds
    // Ritz states (two identical pairs) for which nev_adjusted() splits a pair and restart() indexes m_ritz_val[ncv]; no
    // public-API input reproducing such a state was found, so it is not reported as a finding.
    for (int i = 0; i < ncv; i++)
        for (int j = i + 1; j < ncv; j++)
            if (eigs.m_ritz_val[i].imag().is_sym() && eigs.m_ritz_val[j].imag().is_sym() && !same_real(eigs.m_ritz_val[i].real(), eigs.m_ritz_val[j].real()))
                sym::assume(sym::ne(eigs.m_ritz_val[i].real(), eigs.m_ritz_val[j].real()) ||
                            sym::ne(sym::abs(eigs.m_ritz_val[i].imag()), sym::abs(eigs.m_ritz_val[j].imag())));
    Eigen::Index k = eigs.nev_adjusted(nconv);
    sym::note("k", std::to_string(k));
    sym::expect("1 <= k <= ncv-1", k >= 1 && k <= ncv - 1, "k=" + std::to_string(k));
    sym::expect("k >= nev (wanted values are never purged)", k >= nev, "k=" + std::to_string(k));
    bool split = false;
    {
        const CReal &a = eigs.m_ritz_val[k - 1], &b = eigs.m_ritz_val[k];
        if (a.imag().is_sym() && b.imag().is_sym() && same_real(a.real(), b.real()))
            split = true;
    }
    sym::expect("kept set does not split a conjugate pair", !split, "pair split at k=" + std::to_string(k));
    if (ncv > 4)
    {
        sym::witness("end");
        return;
    }
    gst().selection = SortRule::LargestReal;
    eigs.restart(k, SortRule::LargestReal);
    sym::expect("factorization valid at ncv after restart", gst().valid_k == ncv && eigs.m_fac.subspace_dim() == ncv, "valid_k=" + std::to_string(gst().valid_k));
    for (const std::string& pv : gst().precondition_violations)
        sym::fail("kernel precondition (K3)", pv);
    sym::witness("end");
}

int main(int argc, char** argv)
{
    std::vector<sym::Case> cases;
    for (int ncv = 3; ncv <= 8; ncv++)
        for (int nev = 1; nev + 2 <= ncv; nev++)
            for (int nconv = 0; nconv < nev; nconv++)
            {
                if (ncv - nev > 4)
                    continue;
                int n = ncv + 1;
                cases.push_back({"gennevadj/k" + std::to_string(nev) + "m" + std::to_string(ncv) + "/nconv" + std::to_string(nconv),
                                 [n, nev, ncv, nconv]() { nevadj_case(n, nev, ncv, nconv); }});
            }
    auto add = [&](const std::string& fam, RunCfg c) {
        std::string nm = fam + "/n" + std::to_string(c.n) + "k" + std::to_string(c.nev) + "m" + std::to_string(c.ncv) + "/" + rule_name(c.selection) + "/" +
            rule_name(c.sorting) + "/maxit" + std::to_string(c.maxit) + "/" + c.history + (c.shift_solver ? "/shift" : "");
        if (c.history.find('C') != std::string::npos)
            nm += std::string("/then-") + rule_name(c.selection2) + "-" + rule_name(c.sorting2) + "-maxit" + std::to_string(c.maxit2);
        cases.push_back({nm, [c]() { glue_case(c); }});
    };
    const SortRule sels[] = {SortRule::LargestMagn, SortRule::LargestReal, SortRule::LargestImag, SortRule::SmallestMagn, SortRule::SmallestReal, SortRule::SmallestImag};
    const int sizes[][3] = {{5, 1, 3}, {5, 2, 4}, {6, 2, 5}, {6, 3, 5}, {7, 1, 6}, {7, 2, 6}};
    for (auto& sz : sizes)
        for (int maxit = 0; maxit <= 2; maxit++)
        {
            for (SortRule sel : sels)
                add("gen", RunCfg{sz[0], sz[1], sz[2], sel, SortRule::LargestMagn, maxit, false, "ic"});
            add("gen", RunCfg{sz[0], sz[1], sz[2], SortRule::LargestReal, SortRule::SmallestReal, maxit, false, "ic"});
            add("gen", RunCfg{sz[0], sz[1], sz[2], SortRule::LargestMagn, SortRule::SmallestImag, maxit, false, "ic"});
            add("genshift", RunCfg{sz[0], sz[1], sz[2], SortRule::LargestMagn, SortRule::LargestMagn, maxit, true, "ic"});
            add("genshift", RunCfg{sz[0], sz[1], sz[2], SortRule::LargestReal, SortRule::SmallestReal, maxit, true, "ic"});
            add("genhist", RunCfg{sz[0], sz[1], sz[2], SortRule::LargestReal, SortRule::LargestMagn, maxit, false, "icc"});
            add("genhist", RunCfg{sz[0], sz[1], sz[2], SortRule::SmallestReal, SortRule::LargestMagn, maxit, false, "icic"});
        }
    // a second compute() with OTHER arguments on the same object, no init() in between
    {
        for (int maxit = 0; maxit <= 1; maxit++)
            for (int maxit2 = 0; maxit2 <= 1; maxit2++)
                for (int sh = 0; sh < 2; sh++)
                    add("genhist2", RunCfg{5, 1, 3, SortRule::LargestReal, SortRule::LargestMagn, maxit, sh == 1, "icC", SortRule::SmallestReal, SortRule::LargestReal, maxit2});
        const int fs[][3] = {{3, 1, 3}, {4, 2, 4}};
        for (auto& sz : fs)
            for (int maxit2 = 0; maxit2 <= 2; maxit2 += 2)
                for (int sh = 0; sh < 2; sh++)
                    add("genfull2", RunCfg{sz[0], sz[1], sz[2], SortRule::LargestMagn, SortRule::LargestMagn, 2, sh == 1, "icC", SortRule::SmallestReal, SortRule::LargestReal, maxit2});
    }
    const int full[][3] = {{3, 1, 3}, {4, 1, 4}, {4, 2, 4}, {5, 2, 5}};
    for (auto& sz : full)
        for (SortRule sel : sels)
        {
            add("genfull", RunCfg{sz[0], sz[1], sz[2], sel, SortRule::LargestMagn, 2, false, "ic"});
            add("genfullshift", RunCfg{sz[0], sz[1], sz[2], sel, SortRule::LargestMagn, 2, true, "ic"});
        }
    for (SortRule r : all_rules)
    {
        add("genrules-selection", RunCfg{5, 1, 3, r, SortRule::LargestMagn, 0, false, "ic"});
        add("genrules-sorting", RunCfg{5, 1, 3, SortRule::LargestMagn, r, 0, false, "ic"});
        add("genrules-sorting", RunCfg{5, 1, 3, SortRule::LargestMagn, r, 0, true, "ic"});
        add("genrules-sorting-nev2", RunCfg{5, 2, 4, SortRule::LargestReal, r, 0, false, "ic"});
    }
    return sym::run_main(argc, argv, cases);
}
