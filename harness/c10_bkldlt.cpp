// C10: Bunch-Kaufman LDLT (real code: compute, solve, info and everything below them) on symbolic symmetric matrices.
#include "symx_eigen.h"
#include <Spectra/LinAlg/BKLDLT.h>
#include <Spectra/MatOp/DenseSymShiftSolve.h>

using sym::Real;
using symx::RMat;
using symx::RVec;
using Spectra::CompInfo;
using z3::expr;

template <int Order>
using MatO = Eigen::Matrix<Real, Eigen::Dynamic, Eigen::Dynamic, Order>;

static Real det(const RMat& M)
{
    int n = M.rows();
    if (n == 1)
        return M(0, 0);
    if (n == 2)
        return M(0, 0) * M(1, 1) - M(0, 1) * M(1, 0);
    Real d(0);
    for (int j = 0; j < n; j++)
    {
        RMat sub(n - 1, n - 1);
        for (int r = 1; r < n; r++)
            for (int c = 0, cc = 0; c < n; c++)
                if (c != j)
                    sub(r - 1, cc++) = M(r, c);
        Real term = M(0, j) * det(sub);
        d = (j % 2 == 0) ? Real(d + term) : Real(d - term);
    }
    return d;
}

static const char* info_name(CompInfo i)
{
    switch (i)
    {
        case CompInfo::Successful: return "Successful";
        case CompInfo::NotComputed: return "NotComputed";
        case CompInfo::NotConverging: return "NotConverging";
        case CompInfo::NumericalIssue: return "NumericalIssue";
    }
    return "?";
}

// A: full matrix with independent symbols; the designated triangle defines the symmetric matrix, the other triangle is junk
template <int Order>
static void bk_case(int n, int uplo, bool with_shift)
{
    MatO<Order> A(n, n);
    RMat S(n, n);  // the symmetric matrix the call is documented to factorize
    for (int i = 0; i < n; i++)
        for (int j = 0; j <= i; j++)
        {
            Real a = sym::fresh("a_" + std::to_string(i) + "_" + std::to_string(j));
            S(i, j) = a;
            S(j, i) = a;
            if (uplo == Eigen::Lower)
            {
                A(i, j) = a;
                if (i != j)
                    A(j, i) = sym::fresh("junk_" + std::to_string(j) + "_" + std::to_string(i));
            }
            else
            {
                A(j, i) = a;
                if (i != j)
                    A(i, j) = sym::fresh("junk_" + std::to_string(i) + "_" + std::to_string(j));
            }
        }
    Real shift = with_shift ? sym::fresh("sigma") : Real(0);
    RVec b = symx::fresh_vec("b", n);
    Spectra::BKLDLT<Real> solver(A, uplo, shift);
    CompInfo info = solver.info();
    sym::note("info", info_name(info));
    RMat M = S - shift * RMat::Identity(n, n);
    sym::expect("info in {Successful, NumericalIssue}", info == CompInfo::Successful || info == CompInfo::NumericalIssue,
                std::string("info() = ") + info_name(info) + " after compute()");
    if (info == CompInfo::NumericalIssue)
    {
        // only an exactly singular matrix may be refused
        sym::check_eq("NumericalIssue => det(A - sigma I) = 0", det(M), Real(0));
        sym::witness("end-numerical-issue");
        return;
    }
    if (info != CompInfo::Successful)
        return;
    RVec x = solver.solve(b);
    {
        sym::Scope sc("residual");
        symx::check_mat_eq("(A-sI)x=b", RVec(M * x), b);
    }
    bool clean = true;
    for (int i = 0; i < n; i++)
        if (sym::mentions(x[i], "junk_"))
            clean = false;
    sym::expect("other triangle not read", clean, "solution term mentions an entry of the non-designated triangle");
    // solve_inplace on a segment of a larger vector gives the same result and leaves the rest alone
    RVec big(n + 2);
    big[0] = Real(111);
    big[n + 1] = Real(222);
    big.segment(1, n) = b;
    solver.solve_inplace(big.segment(1, n));
    bool same = !big[0].is_sym() && big[0].value() == 111 && !big[n + 1].is_sym() && big[n + 1].value() == 222;
    sym::expect("solve_inplace stays in its segment", same, "neighbouring entries modified");
    for (int i = 0; i < n; i++)
        sym::check_eq("solve_inplace==solve[" + std::to_string(i) + "]", big[i + 1], x[i]);
    sym::witness("end-successful");
}

// the same symmetric matrix supplied through the lower and through the upper triangle gives identical results
static void bk_lower_upper_case(int n)
{
    RMat L(n, n), U(n, n);
    for (int i = 0; i < n; i++)
        for (int j = 0; j <= i; j++)
        {
            Real a = sym::fresh("a_" + std::to_string(i) + "_" + std::to_string(j));
            L(i, j) = a;
            U(j, i) = a;
            if (i != j)
            {
                L(j, i) = sym::fresh("junkL_" + std::to_string(j) + "_" + std::to_string(i));
                U(i, j) = sym::fresh("junkU_" + std::to_string(i) + "_" + std::to_string(j));
            }
        }
    Real shift = sym::fresh("sigma");
    RVec b = symx::fresh_vec("b", n);
    Spectra::BKLDLT<Real> s1(L, Eigen::Lower, shift), s2(U, Eigen::Upper, shift);
    sym::expect("same status", s1.info() == s2.info(), "lower and upper triangle give different info()");
    if (s1.info() == CompInfo::Successful && s2.info() == CompInfo::Successful)
    {
        RVec x1 = s1.solve(b), x2 = s2.solve(b);
        symx::check_mat_eq("lower==upper", x1, x2);
    }
    sym::witness("end");
}

// reuse of one object: a second compute() on different data must not be influenced by the first
static void bk_reuse_case()
{
    RMat A1(2, 2);
    A1 << Real(0), Real(0), Real(0), Real(0);  // singular: NumericalIssue
    Spectra::BKLDLT<Real> solver(A1, Eigen::Lower, Real(0));
    sym::expect("zero matrix refused", solver.info() == CompInfo::NumericalIssue, "zero matrix accepted");
    RMat A2 = symx::fresh_mat("a", 1, 1);
    sym::assume(sym::ne(A2(0, 0), Real(0)));
    solver.compute(A2, Eigen::Lower, Real(0));
    sym::expect("second compute reports its own status", solver.info() == CompInfo::Successful,
                std::string("info() = ") + info_name(solver.info()) + " for a nonsingular 1x1 matrix after an earlier failure");
    sym::witness("end");
}

// wrapper: DenseSymShiftSolve::set_shift throws std::invalid_argument exactly when the factorization fails
template <int Uplo>
static void wrapper_case(int n)
{
    RMat A(n, n), S(n, n);
    for (int i = 0; i < n; i++)
        for (int j = 0; j <= i; j++)
        {
            Real a = sym::fresh("a_" + std::to_string(i) + "_" + std::to_string(j));
            S(i, j) = a;
            S(j, i) = a;
            if (Uplo == Eigen::Lower)
            {
                A(i, j) = a;
                if (i != j)
                    A(j, i) = sym::fresh("junk_" + std::to_string(j) + "_" + std::to_string(i));
            }
            else
            {
                A(j, i) = a;
                if (i != j)
                    A(i, j) = sym::fresh("junk_" + std::to_string(i) + "_" + std::to_string(j));
            }
        }
    Real shift = sym::fresh("sigma");
    Spectra::DenseSymShiftSolve<Real, Uplo> op(A);
    RMat M = S - shift * RMat::Identity(n, n);
    bool threw = false;
    try
    {
        op.set_shift(shift);
    }
    catch (const std::invalid_argument&)
    {
        threw = true;
    }
    sym::note("threw", threw ? "yes" : "no");
    if (threw)
    {
        sym::check_eq("invalid_argument => singular", det(M), Real(0));
        sym::witness("end-threw");
        return;
    }
    RVec xin = symx::fresh_vec("x", n), y(n);
    op.perform_op(xin.data(), y.data());
    symx::check_mat_eq("(A-sI)y=x", RVec(M * y), xin);
    sym::witness("end-solved");
}

// complex Hermitian input
using symx::CReal;
using symx::CMat;
using symx::CVec;
template <int Order>
static void bk_complex_case(int n, int uplo)
{
    Eigen::Matrix<CReal, Eigen::Dynamic, Eigen::Dynamic, Order> A(n, n);
    CMat S(n, n);
    for (int i = 0; i < n; i++)
        for (int j = 0; j <= i; j++)
        {
            std::string ij = std::to_string(i) + "_" + std::to_string(j);
            CReal a(sym::fresh("re_" + ij), i == j ? Real(0) : sym::fresh("im_" + ij));
            S(i, j) = a;
            S(j, i) = std::conj(a);
            CReal junk(sym::fresh("junk_re_" + ij), sym::fresh("junk_im_" + ij));
            if (uplo == Eigen::Lower)
            {
                A(i, j) = a;
                if (i != j)
                    A(j, i) = junk;
            }
            else
            {
                A(j, i) = std::conj(a);
                if (i != j)
                    A(i, j) = junk;
            }
        }
    Real shift = sym::fresh("sigma");
    CVec b(n);
    for (int i = 0; i < n; i++)
        b[i] = CReal(sym::fresh("bre_" + std::to_string(i)), sym::fresh("bim_" + std::to_string(i)));
    Spectra::BKLDLT<CReal> solver(A, uplo, shift);
    CompInfo info = solver.info();
    sym::note("info", info_name(info));
    sym::expect("info in {Successful, NumericalIssue}", info == CompInfo::Successful || info == CompInfo::NumericalIssue,
                std::string("info() = ") + info_name(info));
    if (info != CompInfo::Successful)
    {
        sym::witness("end-numerical-issue");
        return;
    }
    CVec x = solver.solve(b);
    CMat M = S - CReal(shift, Real(0)) * CMat::Identity(n, n);
    CVec r = M * x;
    for (int i = 0; i < n; i++)
    {
        sym::check_eq("Re((A-sI)x-b)[" + std::to_string(i) + "]", r[i].real(), b[i].real());
        sym::check_eq("Im((A-sI)x-b)[" + std::to_string(i) + "]", r[i].imag(), b[i].imag());
    }
    bool clean = true;
    for (int i = 0; i < n; i++)
        if (sym::mentions(x[i].real(), "junk_") || sym::mentions(x[i].imag(), "junk_"))
            clean = false;
    sym::expect("other triangle not read", clean, "solution mentions the non-designated triangle");
    sym::witness("end-successful");
}

int main(int argc, char** argv)
{
    std::vector<sym::Case> cases;
    for (int n = 1; n <= 3; n++)
    {
        std::string sn = "n" + std::to_string(n);
        cases.push_back({"bk-complex/" + sn + "/lower/colmajor", [n]() { bk_complex_case<Eigen::ColMajor>(n, Eigen::Lower); }});
        cases.push_back({"bk-complex/" + sn + "/upper/colmajor", [n]() { bk_complex_case<Eigen::ColMajor>(n, Eigen::Upper); }});
        cases.push_back({"bk-complex/" + sn + "/lower/rowmajor", [n]() { bk_complex_case<Eigen::RowMajor>(n, Eigen::Lower); }});
        cases.push_back({"bk-complex/" + sn + "/upper/rowmajor", [n]() { bk_complex_case<Eigen::RowMajor>(n, Eigen::Upper); }});
    }
    for (int n = 1; n <= 4; n++)
    {
        std::string sn = "n" + std::to_string(n);
        cases.push_back({"bk/" + sn + "/lower/colmajor/shift", [n]() { bk_case<Eigen::ColMajor>(n, Eigen::Lower, true); }});
        cases.push_back({"bk/" + sn + "/upper/colmajor/shift", [n]() { bk_case<Eigen::ColMajor>(n, Eigen::Upper, true); }});
        cases.push_back({"bk/" + sn + "/lower/rowmajor/shift", [n]() { bk_case<Eigen::RowMajor>(n, Eigen::Lower, true); }});
        cases.push_back({"bk/" + sn + "/upper/rowmajor/shift", [n]() { bk_case<Eigen::RowMajor>(n, Eigen::Upper, true); }});
        cases.push_back({"bk/" + sn + "/lower/colmajor/noshift", [n]() { bk_case<Eigen::ColMajor>(n, Eigen::Lower, false); }});
        cases.push_back({"bk-lower-vs-upper/" + sn, [n]() { bk_lower_upper_case(n); }});
    }
    cases.push_back({"bk-reuse/zero-then-1x1", bk_reuse_case});
    for (int n = 1; n <= 3; n++)
    {
        cases.push_back({"wrapper/DenseSymShiftSolve/lower/n" + std::to_string(n), [n]() { wrapper_case<Eigen::Lower>(n); }});
        cases.push_back({"wrapper/DenseSymShiftSolve/upper/n" + std::to_string(n), [n]() { wrapper_case<Eigen::Upper>(n); }});
    }
    return sym::run_main(argc, argv, cases);
}
