// C10: Bunch-Kaufman LDLT (real code: compute, solve, info and everything below them) on symbolic symmetric matrices.
#include "symx_eigen.h"
#include <map>
#include <Spectra/LinAlg/BKLDLT.h>
#include <Spectra/MatOp/DenseSymShiftSolve.h>

using sym::Real;
using symx::RMat;
using symx::RVec;
using Spectra::CompInfo;
using z3::expr;

template <int Order>
using MatO = Eigen::Matrix<Real, Eigen::Dynamic, Eigen::Dynamic, Order>;

static Real det(const RMat& M)
{
    int n = M.rows();
    if (n == 1)
        return M(0, 0);
    if (n == 2)
        return M(0, 0) * M(1, 1) - M(0, 1) * M(1, 0);
    Real d(0);
    for (int j = 0; j < n; j++)
    {
        RMat sub(n - 1, n - 1);
        for (int r = 1; r < n; r++)
            for (int c = 0, cc = 0; c < n; c++)
                if (c != j)
                    sub(r - 1, cc++) = M(r, c);
        Real term = M(0, j) * det(sub);
        d = (j % 2 == 0) ? Real(d + term) : Real(d - term);
    }
    return d;
}

static const char* info_name(CompInfo i)
{
    switch (i)
    {
        case CompInfo::Successful: return "Successful";
        case CompInfo::NotComputed: return "NotComputed";
        case CompInfo::NotConverging: return "NotConverging";
        case CompInfo::NumericalIssue: return "NumericalIssue";
    }
    return "?";
}

// A: full matrix with independent symbols; the designated triangle defines the symmetric matrix, the other triangle is junk
template <int Order>
static void bk_case(int n, int uplo, bool with_shift)
{
    MatO<Order> A(n, n);
    RMat S(n, n);  // the symmetric matrix the call is documented to factorize
    for (int i = 0; i < n; i++)
        for (int j = 0; j <= i; j++)
        {
            Real a = sym::fresh("a_" + std::to_string(i) + "_" + std::to_string(j));
            S(i, j) = a;
            S(j, i) = a;
            if (uplo == Eigen::Lower)
            {
                A(i, j) = a;
                if (i != j)
                    A(j, i) = sym::fresh("junk_" + std::to_string(j) + "_" + std::to_string(i));
            }
            else
            {
                A(j, i) = a;
                if (i != j)
                    A(i, j) = sym::fresh("junk_" + std::to_string(i) + "_" + std::to_string(j));
            }
        }
    Real shift = with_shift ? sym::fresh("sigma") : Real(0);
    RVec b = symx::fresh_vec("b", n);
    Spectra::BKLDLT<Real> solver(A, uplo, shift);
    CompInfo info = solver.info();
    sym::note("info", info_name(info));
    RMat M = S - shift * RMat::Identity(n, n);
    sym::expect("info in {Successful, NumericalIssue}", info == CompInfo::Successful || info == CompInfo::NumericalIssue,
                std::string("info() = ") + info_name(info) + " after compute()");
    if (info == CompInfo::NumericalIssue)
    {
        // only an exactly singular matrix may be refused
        sym::check_eq("NumericalIssue => det(A - sigma I) = 0", det(M), Real(0));
        sym::witness("end-numerical-issue");
        return;
    }
    if (info != CompInfo::Successful)
        return;
    RVec x = solver.solve(b);
    {
        sym::Scope sc("residual");
        symx::check_mat_eq("(A-sI)x=b", RVec(M * x), b);
    }
    bool clean = true;
    for (int i = 0; i < n; i++)
        if (sym::mentions(x[i], "junk_"))
            clean = false;
    sym::expect("other triangle not read", clean, "solution term mentions an entry of the non-designated triangle");
    // solve_inplace on a segment of a larger vector gives the same result and leaves the rest alone
    RVec big(n + 2);
    big[0] = Real(111);
    big[n + 1] = Real(222);
    big.segment(1, n) = b;
    solver.solve_inplace(big.segment(1, n));
    bool same = !big[0].is_sym() && big[0].value() == 111 && !big[n + 1].is_sym() && big[n + 1].value() == 222;
    sym::expect("solve_inplace stays in its segment", same, "neighbouring entries modified");
    for (int i = 0; i < n; i++)
        sym::check_eq("solve_inplace==solve[" + std::to_string(i) + "]", big[i + 1], x[i]);
    sym::witness("end-successful");
}

// the same symmetric matrix supplied through the lower and through the upper triangle gives identical results
static void bk_lower_upper_case(int n)
{
    RMat L(n, n), U(n, n);
    for (int i = 0; i < n; i++)
        for (int j = 0; j <= i; j++)
        {
            Real a = sym::fresh("a_" + std::to_string(i) + "_" + std::to_string(j));
            L(i, j) = a;
            U(j, i) = a;
            if (i != j)
            {
                L(j, i) = sym::fresh("junkL_" + std::to_string(j) + "_" + std::to_string(i));
                U(i, j) = sym::fresh("junkU_" + std::to_string(i) + "_" + std::to_string(j));
            }
        }
    Real shift = sym::fresh("sigma");
    RVec b = symx::fresh_vec("b", n);
    Spectra::BKLDLT<Real> s1(L, Eigen::Lower, shift), s2(U, Eigen::Upper, shift);
    sym::expect("same status", s1.info() == s2.info(), "lower and upper triangle give different info()");
    if (s1.info() == CompInfo::Successful && s2.info() == CompInfo::Successful)
    {
        RVec x1 = s1.solve(b), x2 = s2.solve(b);
        symx::check_mat_eq("lower==upper", x1, x2);
    }
    sym::witness("end");
}

// reuse of one object: a second compute() on different data must not be influenced by the first
static void bk_reuse_case()
{
    RMat A1(2, 2);
    A1 << Real(0), Real(0), Real(0), Real(0);  // singular: NumericalIssue
    Spectra::BKLDLT<Real> solver(A1, Eigen::Lower, Real(0));
    sym::expect("zero matrix refused", solver.info() == CompInfo::NumericalIssue, "zero matrix accepted");
    RMat A2 = symx::fresh_mat("a", 1, 1);
    sym::assume(sym::ne(A2(0, 0), Real(0)));
    solver.compute(A2, Eigen::Lower, Real(0));
    sym::expect("second compute reports its own status", solver.info() == CompInfo::Successful,
                std::string("info() = ") + info_name(solver.info()) + " for a nonsingular 1x1 matrix after an earlier failure");
    sym::witness("end");
}

// reuse with the SAME size: whatever the first factorization did (interchanges, 2x2 pivots), the second compute() on the same
// object must factorize and solve the second matrix.  n = 2: both matrices symbolic; n = 3: the first matrix is numeric and
// forces interchanges, the second is symbolic.
static void bk_reuse_same_size_case(int n)
{
    RMat A1(n, n), A2(n, n), S2(n, n);
    if (n == 2)
        A1 = symx::fresh_mat("p", n, n);
    else
    {
        A1 = RMat::Zero(n, n);
        A1(1, 0) = Real(1);
        A1(0, 1) = Real(1);
        A1(2, 1) = Real(2);
        A1(1, 2) = Real(2);
        A1(2, 2) = Real(0.125);  // zero diagonal in front: interchanges and a 2x2 pivot
    }
    for (int i = 0; i < n; i++)
        for (int j = 0; j <= i; j++)
        {
            Real a = sym::fresh("a_" + std::to_string(i) + "_" + std::to_string(j));
            A2(i, j) = a;
            S2(i, j) = a;
            S2(j, i) = a;
            if (i != j)
                A2(j, i) = sym::fresh("junk_" + std::to_string(j) + "_" + std::to_string(i));
        }
    Spectra::BKLDLT<Real> solver(A1, Eigen::Lower, Real(0));
    sym::note("first", std::string(info_name(solver.info())) + ", interchanges recorded: " + std::to_string(solver.m_permc.size()));
    solver.compute(A2, Eigen::Lower, Real(0));
    sym::note("second", info_name(solver.info()));
    if (solver.info() != CompInfo::Successful)
    {
        sym::check_eq("NumericalIssue => det(A2) = 0", det(S2), Real(0));
        sym::witness("end-numerical-issue");
        return;
    }
    RVec b = symx::fresh_vec("b", n);
    RVec x = solver.solve(b);
    symx::check_mat_eq("second factorization solves the second system: A2 x = b", RVec(S2 * x), b);
    sym::witness("end-successful");
}

// the dense shift-solve wrapper re-used: set_shift(sigma1); set_shift(sigma2); perform_op must solve with sigma2
template <int Uplo>
static void wrapper_reuse_case(int n)
{
    RMat A(n, n), S(n, n);
    for (int i = 0; i < n; i++)
        for (int j = 0; j <= i; j++)
        {
            Real a = sym::fresh("a_" + std::to_string(i) + "_" + std::to_string(j));
            S(i, j) = a;
            S(j, i) = a;
            A(i, j) = a;
            A(j, i) = a;
        }
    Real s1 = sym::fresh("sigma1"), s2 = sym::fresh("sigma2");
    Spectra::DenseSymShiftSolve<Real, Uplo> op(A);
    try
    {
        op.set_shift(s1);
        op.set_shift(s2);
    }
    catch (const std::invalid_argument&)
    {
        sym::witness("end-threw");
        return;
    }
    RVec xin = symx::fresh_vec("x", n), y(n);
    op.perform_op(xin.data(), y.data());
    symx::check_mat_eq("(A-sigma2 I)y=x after set_shift was called twice", RVec((S - s2 * RMat::Identity(n, n)) * y), xin);
    sym::witness("end-solved");
}

// wrapper: DenseSymShiftSolve::set_shift throws std::invalid_argument exactly when the factorization fails
template <int Uplo>
static void wrapper_case(int n)
{
    RMat A(n, n), S(n, n);
    for (int i = 0; i < n; i++)
        for (int j = 0; j <= i; j++)
        {
            Real a = sym::fresh("a_" + std::to_string(i) + "_" + std::to_string(j));
            S(i, j) = a;
            S(j, i) = a;
            if (Uplo == Eigen::Lower)
            {
                A(i, j) = a;
                if (i != j)
                    A(j, i) = sym::fresh("junk_" + std::to_string(j) + "_" + std::to_string(i));
            }
            else
            {
                A(j, i) = a;
                if (i != j)
                    A(i, j) = sym::fresh("junk_" + std::to_string(i) + "_" + std::to_string(j));
            }
        }
    Real shift = sym::fresh("sigma");
    Spectra::DenseSymShiftSolve<Real, Uplo> op(A);
    RMat M = S - shift * RMat::Identity(n, n);
    bool threw = false;
    try
    {
        op.set_shift(shift);
    }
    catch (const std::invalid_argument&)
    {
        threw = true;
    }
    sym::note("threw", threw ? "yes" : "no");
    if (threw)
    {
        sym::check_eq("invalid_argument => singular", det(M), Real(0));
        sym::witness("end-threw");
        return;
    }
    RVec xin = symx::fresh_vec("x", n), y(n);
    op.perform_op(xin.data(), y.data());
    symx::check_mat_eq("(A-sI)y=x", RVec(M * y), xin);
    sym::witness("end-solved");
}

// complex Hermitian input
using symx::CReal;
using symx::CMat;
using symx::CVec;
template <int Order>
static void bk_complex_case(int n, int uplo)
{
    Eigen::Matrix<CReal, Eigen::Dynamic, Eigen::Dynamic, Order> A(n, n);
    CMat S(n, n);
    for (int i = 0; i < n; i++)
        for (int j = 0; j <= i; j++)
        {
            std::string ij = std::to_string(i) + "_" + std::to_string(j);
            CReal a(sym::fresh("re_" + ij), i == j ? Real(0) : sym::fresh("im_" + ij));
            S(i, j) = a;
            S(j, i) = std::conj(a);
            CReal junk(sym::fresh("junk_re_" + ij), sym::fresh("junk_im_" + ij));
            if (uplo == Eigen::Lower)
            {
                A(i, j) = a;
                if (i != j)
                    A(j, i) = junk;
            }
            else
            {
                A(j, i) = std::conj(a);
                if (i != j)
                    A(i, j) = junk;
            }
        }
    Real shift = sym::fresh("sigma");
    CVec b(n);
    for (int i = 0; i < n; i++)
        b[i] = CReal(sym::fresh("bre_" + std::to_string(i)), sym::fresh("bim_" + std::to_string(i)));
    Spectra::BKLDLT<CReal> solver(A, uplo, shift);
    CompInfo info = solver.info();
    sym::note("info", info_name(info));
    sym::expect("info in {Successful, NumericalIssue}", info == CompInfo::Successful || info == CompInfo::NumericalIssue,
                std::string("info() = ") + info_name(info));
    if (info != CompInfo::Successful)
    {
        sym::witness("end-numerical-issue");
        return;
    }
    CVec x = solver.solve(b);
    CMat M = S - CReal(shift, Real(0)) * CMat::Identity(n, n);
    CVec r = M * x;
    for (int i = 0; i < n; i++)
    {
        sym::check_eq("Re((A-sI)x-b)[" + std::to_string(i) + "]", r[i].real(), b[i].real());
        sym::check_eq("Im((A-sI)x-b)[" + std::to_string(i) + "]", r[i].imag(), b[i].imag());
    }
    bool clean = true;
    for (int i = 0; i < n; i++)
        if (sym::mentions(x[i].real(), "junk_") || sym::mentions(x[i].imag(), "junk_"))
            clean = false;
    sym::expect("other triangle not read", clean, "solution mentions the non-designated triangle");
    sym::witness("end-successful");
}

// Stability mechanism of Bunch-Kaufman pivoting (the exact-arithmetic core of the backward-error clause): one elimination step
// of the REAL code (permutate_mat + gaussian_elimination_1x1/2x2, driven exactly as compute() drives them) from an arbitrary
// symmetric matrix; every entry of the reduced matrix is bounded by (1 + 1/alpha) * max|a_ij| after a 1x1 pivot and by
// (1 + 2/(1 - alpha)) * max|a_ij| after a 2x2 pivot (Bunch & Kaufman 1977), alpha = (1 + sqrt 17)/8.  A pivot search that
// overlooks part of a column (the classical off-by-one) keeps every residual identity exact and breaks exactly this bound.
// Normalisation (norm = j < n): the sub-column entry a_j0 equals 1 and |a_i0| <= 1 for the others (norm = n: the whole
// sub-column is zero).  Every symmetric matrix is of one of these forms up to A -> cA (c > 0) and a sign similarity diag(+-1):
// the pivoting rule only compares |.|-homogeneous quantities and the bound is homogeneous, so the n sub-cases together cover
// all matrices; the invariance itself is an argument, not a solver result, and is listed as an assumption.  Without the
// normalisation the 2x2 obligations stay undecided.
static void bk_growth_case(int n, int steps, bool simple_alpha, int norm)
{
    RMat A(n, n);
    for (int i = 0; i < n; i++)
        for (int j = 0; j <= i; j++)
        {
            if (j == 0 && i >= 1 && (i == norm || norm == n))
                A(i, j) = (i == norm) ? Real(1) : Real(0);
            else
                A(i, j) = sym::fresh("a_" + std::to_string(i) + "_" + std::to_string(j));
            if (j == 0 && i >= 1 && i != norm && norm < n)
                sym::assume(sym::le(sym::abs(A(i, j)), Real(1)));
            if (i != j)
                A(j, i) = sym::fresh("junk_" + std::to_string(j) + "_" + std::to_string(i));
        }
    Spectra::BKLDLT<Real> s;
    s.m_n = n;
    s.m_perm.setLinSpaced(n, 0, n - 1);
    s.m_permc.clear();
    s.m_data.resize((n * (n + 1)) / 2);
    s.compute_pointer();
    s.copy_data(A, Eigen::Lower, Real(0));
    // alpha: the double constant compute() passes, or (simple_alpha) the nearby rational 16/25 - the bound is a property of the
    // pivoting rule for every 0 < alpha < 1, and small numerators keep the 2x2 obligations within the solver's reach
    const Real alpha = simple_alpha ? sym::rational(16, 25) : sym::exact((1.0 + std::sqrt(17.0)) / 8.0);
    const Real c1 = sym::rational(1, 1) + sym::rational(1, 1) / alpha;
    const Real c2 = sym::rational(1, 1) + sym::rational(2, 1) / (sym::rational(1, 1) - alpha);
    int done = 0;
    for (Eigen::Index k = 0; k < n - 1 && done < steps; k++, done++)
    {
        Real mu = sym::abs(s.coeff(k, k));
        for (Eigen::Index j = k; j < n; j++)
            for (Eigen::Index i = j; i < n; i++)
                mu = sym::smax(mu, sym::abs(s.coeff(i, j)));
        bool is_1x1 = s.permutate_mat(k, alpha);
        CompInfo info = is_1x1 ? s.gaussian_elimination_1x1(k) : s.gaussian_elimination_2x2(k);
        sym::note("pivot", std::string(is_1x1 ? "1x1" : "2x2") + " at step " + std::to_string(done));
        if (info != CompInfo::Successful)
        {
            sym::witness("end-singular-pivot");
            return;
        }
        Eigen::Index kk = k + (is_1x1 ? 1 : 2);
        sym::Scope sc(std::string("after ") + (is_1x1 ? "1x1" : "2x2") + " pivot, step " + std::to_string(done));
        for (Eigen::Index j = kk; j < n; j++)
            for (Eigen::Index i = j; i < n; i++)
                sym::check("element growth bound(" + std::to_string(i) + "," + std::to_string(j) + ")", sym::le(sym::abs(s.coeff(i, j)), (is_1x1 ? c1 : c2) * mu));
        if (!is_1x1)
            k++;
    }
    sym::witness("end");
}

// The pivot search and selection of the REAL permutate_mat (find_lambda, find_sigma, pivoting_1x1/2x2, interchange_rows) from an
// ARBITRARY reduced matrix at elimination step k (state injection: every stored entry is a symbol) against the Bunch-Kaufman
// rule written independently: lambda = max_{i>k} |a_ik| attained first at row r, sigma = max_{i>=k, i!=r} |a_ir|;
//   1x1 pivot a_kk, no interchange  iff  lambda = 0  or  |a_kk| >= alpha lambda  or  |a_kk| sigma >= alpha lambda^2
//   1x1 pivot a_rr (k <-> r)        iff  otherwise and |a_rr| >= alpha sigma
//   2x2 pivot [a_kk a_rk; a_rk a_rr] (k+1 <-> r) otherwise.
// The element-growth bound (hence the backward-error clause, in exact arithmetic) is a theorem about exactly this rule; a search
// that overlooks part of a column keeps every residual identity intact and is visible only here and in bk-growth.
static void bk_pivot_rule_case(int n, int k)
{
    using z3::expr;
    Spectra::BKLDLT<Real> s;
    s.m_n = n;
    s.m_perm.setLinSpaced(n, 0, n - 1);
    s.m_permc.clear();
    s.m_data.resize((n * (n + 1)) / 2);
    s.compute_pointer();
    std::map<std::string, std::pair<int, int>> where;
    RMat M(n, n);  // symmetric view of the stored lower triangle before the call
    for (int j = 0; j < n; j++)
        for (int i = j; i < n; i++)
        {
            std::string nm = "a_" + std::to_string(i) + "_" + std::to_string(j);
            Real a = sym::fresh(nm);
            s.coeff(i, j) = a;
            M(i, j) = a;
            M(j, i) = a;
            where[nm] = {i, j};
        }
    const Real alpha = sym::exact((1.0 + std::sqrt(17.0)) / 8.0);
    bool is_1x1 = s.permutate_mat(k, Real((1.0 + std::sqrt(17.0)) / 8.0));
    // which rows did the call bring to the pivot position?  (the library's own record m_perm: r for a 1x1 pivot, -(.)-1 for a 2x2
    // block; its consistency with what was really moved is checked right below, entry by entry)
    auto same_entry = [](const Real& a, const Real& b) {
        if (!a.is_sym() && !b.is_sym())
            return a.value() == b.value();
        return a.is_sym() && b.is_sym() && (a.id == b.id || Z3_get_ast_id(sym::ctx(), a.term()) == Z3_get_ast_id(sym::ctx(), b.term()));
    };
    int pk = is_1x1 ? (int) s.m_perm[k] : (int) (-s.m_perm[k] - 1);
    int pk1 = (is_1x1 || k + 1 >= n) ? -1 : (int) (-s.m_perm[k + 1] - 1);
    sym::note("observed", std::string(is_1x1 ? "1x1" : "2x2") + " pivot rows " + std::to_string(pk) + (is_1x1 ? "" : "," + std::to_string(pk1)));
    sym::expect("pivot rows lie inside the reduced matrix", pk >= k && pk < n && (is_1x1 || (pk1 > k && pk1 < n)), "rows " + std::to_string(pk) + "," + std::to_string(pk1));
    if (pk < k || pk >= n || (!is_1x1 && (pk1 <= k || pk1 >= n)))
        return;
    // the reduced matrix after the call is the symmetric permutation that brings the recorded rows to the pivot position (and
    // nothing else moved): swap(k, pk), then for a 2x2 block swap(k+1, pk1) - the order the library's record encodes
    {
        std::vector<int> perm(n);
        for (int i = 0; i < n; i++)
            perm[i] = i;
        std::swap(perm[k], perm[pk]);
        if (!is_1x1)
            std::swap(perm[k + 1], perm[pk1]);
        bool same = true;
        for (int j = k; j < n; j++)
            for (int i = j; i < n; i++)
                same = same && same_entry(s.coeff(i, j), M(perm[i], perm[j]));
        sym::expect("reduced matrix after the call = P A P' for the recorded pivot permutation", same, "entries moved inconsistently with the recorded permutation");
    }
    if (!is_1x1 && pk != k)
    {
        // a 2x2 block that does not contain row k (another interchange strategy than Bunch-Kaufman's): its stability conditions
        // are different ones and are not encoded here
        sym::note("skipped", "2x2 block without row k: interchange strategy not encoded");
        sym::witness("end-other-strategy");
        return;
    }
    // Reference: the conditions under which each kind of pivot keeps element growth bounded (Bunch & Kaufman 1977), stated with
    // NON-strict inequalities and for ANY row r attaining lambda, so that tie-breaking and boundary conventions of an
    // implementation are not prescribed:
    //   1x1 pivot a_kk          needs  lambda = 0  or  |a_kk| >= alpha lambda  or  |a_kk| sigma_r >= alpha lambda^2
    //   1x1 pivot a_rr          needs  r attains lambda  and  |a_rr| >= alpha sigma_r
    //   2x2 pivot on rows k, r  needs  r attains lambda > 0,  |a_kk| sigma_r <= alpha lambda^2  and  |a_rr| <= alpha sigma_r
    // with sigma_r = max_{i >= k, i != r} |a_ir| over the WHOLE column r of the reduced matrix.
    Real lambda = sym::abs(M(k + 1, k));
    for (int i = k + 2; i < n; i++)
        lambda = sym::smax(lambda, sym::abs(M(i, k)));
    Real akk = sym::abs(M(k, k));
    auto attains_max = [&](int r) {
        expr c = sym::btrue();
        for (int i = k + 1; i < n; i++)
            if (i != r)
                c = c && sym::le(sym::abs(M(i, k)), sym::abs(M(r, k)));
        return c;
    };
    auto sigma_of = [&](int r) {
        Real sg(0);
        bool first = true;
        for (int i = k; i < n; i++)
            if (i != r)
            {
                sg = first ? sym::abs(M(i, r)) : sym::smax(sg, sym::abs(M(i, r)));
                first = false;
            }
        return sg;
    };
    expr lam0 = sym::le(lambda, Real(0));
    if (is_1x1 && pk == k)
    {
        expr keep = lam0 || sym::le(alpha * lambda, akk);
        for (int r = k + 1; r < n; r++)
            keep = keep || (attains_max(r) && sym::le(alpha * lambda * lambda, akk * sigma_of(r)));
        sym::check("1x1 pivot a_kk only under a Bunch-Kaufman growth condition", keep);
    }
    else
    {
        int r = is_1x1 ? pk : pk1;
        Real sg = sigma_of(r), arr = sym::abs(M(r, r));
        if (is_1x1)
            sym::check("1x1 pivot a_rr only under a Bunch-Kaufman growth condition", attains_max(r) && sym::le(alpha * sg, arr));
        else
            sym::check("2x2 pivot only under the Bunch-Kaufman growth conditions", !lam0 && attains_max(r) && sym::le(akk * sg, alpha * lambda * lambda) && sym::le(arr, alpha * sg));
    }
    sym::witness("end");
}

int main(int argc, char** argv)
{
    std::vector<sym::Case> cases;
    for (int n = 2; n <= 5; n++)
        for (int k = 0; k + 1 < n; k++)
            cases.push_back({"bk-pivot-rule/n" + std::to_string(n) + "/k" + std::to_string(k), [=]() { bk_pivot_rule_case(n, k); }});
    for (int sa = 0; sa < 2; sa++)
    {
        std::string t = sa ? "/alpha16_25" : "/alpha-double";
        for (int n = 3; n <= 4; n++)
            for (int norm = 1; norm <= n; norm++)
                for (int steps = 1; steps <= n - 2; steps++)
                    cases.push_back({"bk-growth/n" + std::to_string(n) + "/step" + std::to_string(steps) + t + "/norm" + std::to_string(norm), [=]() { bk_growth_case(n, steps, sa, norm); }});
    }
    for (int n = 1; n <= 3; n++)
    {
        std::string sn = "n" + std::to_string(n);
        cases.push_back({"bk-complex/" + sn + "/lower/colmajor", [n]() { bk_complex_case<Eigen::ColMajor>(n, Eigen::Lower); }});
        cases.push_back({"bk-complex/" + sn + "/upper/colmajor", [n]() { bk_complex_case<Eigen::ColMajor>(n, Eigen::Upper); }});
        cases.push_back({"bk-complex/" + sn + "/lower/rowmajor", [n]() { bk_complex_case<Eigen::RowMajor>(n, Eigen::Lower); }});
        cases.push_back({"bk-complex/" + sn + "/upper/rowmajor", [n]() { bk_complex_case<Eigen::RowMajor>(n, Eigen::Upper); }});
    }
    for (int n = 1; n <= 4; n++)
    {
        std::string sn = "n" + std::to_string(n);
        cases.push_back({"bk/" + sn + "/lower/colmajor/shift", [n]() { bk_case<Eigen::ColMajor>(n, Eigen::Lower, true); }});
        cases.push_back({"bk/" + sn + "/upper/colmajor/shift", [n]() { bk_case<Eigen::ColMajor>(n, Eigen::Upper, true); }});
        cases.push_back({"bk/" + sn + "/lower/rowmajor/shift", [n]() { bk_case<Eigen::RowMajor>(n, Eigen::Lower, true); }});
        cases.push_back({"bk/" + sn + "/upper/rowmajor/shift", [n]() { bk_case<Eigen::RowMajor>(n, Eigen::Upper, true); }});
        cases.push_back({"bk/" + sn + "/lower/colmajor/noshift", [n]() { bk_case<Eigen::ColMajor>(n, Eigen::Lower, false); }});
        cases.push_back({"bk-lower-vs-upper/" + sn, [n]() { bk_lower_upper_case(n); }});
    }
    cases.push_back({"bk-reuse/zero-then-1x1", bk_reuse_case});
    cases.push_back({"bk-reuse/same-size/n2", []() { bk_reuse_same_size_case(2); }});
    cases.push_back({"bk-reuse/same-size/n3", []() { bk_reuse_same_size_case(3); }});
    cases.push_back({"wrapper-reuse/DenseSymShiftSolve/lower/n2", []() { wrapper_reuse_case<Eigen::Lower>(2); }});
    cases.push_back({"wrapper-reuse/DenseSymShiftSolve/upper/n2", []() { wrapper_reuse_case<Eigen::Upper>(2); }});
    for (int n = 1; n <= 3; n++)
    {
        cases.push_back({"wrapper/DenseSymShiftSolve/lower/n" + std::to_string(n), [n]() { wrapper_case<Eigen::Lower>(n); }});
        cases.push_back({"wrapper/DenseSymShiftSolve/upper/n" + std::to_string(n), [n]() { wrapper_case<Eigen::Upper>(n); }});
    }
    return sym::run_main(argc, argv, cases);
}
