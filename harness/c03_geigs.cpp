// C03: generalized symmetric solvers - operator identities of the five internal operators built from the real wrappers,
// back-transformations (real sort_ritzpair of the three shift modes), Cholesky-mode eigenvectors(), sigma = 0 rejection,
// lifetime of the rvalue operator kept inside the solver.
#include "symx_eigen.h"
#include <Eigen/Sparse>
#include <Eigen/SparseLU>
#include <Spectra/SymGEigsSolver.h>
#include <Spectra/SymGEigsShiftSolver.h>
#include <Spectra/MatOp/DenseSymMatProd.h>
#include <Spectra/MatOp/SparseSymMatProd.h>
#include <Spectra/MatOp/DenseCholesky.h>
#include <Spectra/MatOp/SymShiftInvert.h>

using namespace Spectra;
using sym::Real;
using symx::RMat;
using symx::RVec;
using z3::expr;

static RMat sym_mat(const std::string& nm, int n)
{
    RMat S(n, n);
    for (int i = 0; i < n; i++)
        for (int j = 0; j <= i; j++)
        {
            Real a = sym::fresh(nm + "_" + std::to_string(i) + "_" + std::to_string(j));
            S(i, j) = a;
            S(j, i) = a;
        }
    return S;
}

// ---- composite operators on the real dense wrappers
static void cholesky_op_case(int n)
{
    RMat A = sym_mat("a", n), B = sym_mat("b", n);
    DenseSymMatProd<Real> op(A);
    DenseCholesky<Real> Bop(B);
    if (Bop.info() != CompInfo::Successful)
    {
        sym::witness("end-not-spd");
        return;
    }
    SymGEigsCholeskyOp<DenseSymMatProd<Real>, DenseCholesky<Real>> gop(op, Bop);
    RVec x = symx::fresh_vec("x", n), y(n), u(n);
    gop.perform_op(x.data(), y.data());
    RMat Lm = Bop.m_decomp.matrixL();
    symx::check_mat_eq("LL'=B", RMat(Lm * Lm.transpose()), B);
    Bop.upper_triangular_solve(x.data(), u.data());
    symx::check_mat_eq("L'u=x", RVec(Lm.transpose() * u), x);
    symx::check_mat_eq("L y = A L^-T x", RVec(Lm * y), RVec(A * u));
    sym::witness("end");
}
template <int Mode>  // 0 shift-invert, 1 buckling, 2 Cayley
static void shift_op_case(int n, bool sparse)
{
    RMat A = sym_mat("a", n), B = sym_mat("b", n);
    Real sigma = sym::fresh("sigma");
    RVec x = symx::fresh_vec("x", n), y(n);
    auto run = [&](auto& op, auto& Bop) {
        try
        {
            op.set_shift(sigma);
        }
        catch (const std::invalid_argument&)
        {
            return false;
        }
        if (Mode == 0)
        {
            SymGEigsShiftInvertOp<typename std::decay<decltype(op)>::type, typename std::decay<decltype(Bop)>::type> g(op, Bop);
            g.perform_op(x.data(), y.data());
        }
        else if (Mode == 1)
        {
            SymGEigsBucklingOp<typename std::decay<decltype(op)>::type, typename std::decay<decltype(Bop)>::type> g(op, Bop);
            g.perform_op(x.data(), y.data());
        }
        else
        {
            SymGEigsCayleyOp<typename std::decay<decltype(op)>::type, typename std::decay<decltype(Bop)>::type> g(op, Bop);
            g.set_shift(sigma);
            g.perform_op(x.data(), y.data());
        }
        return true;
    };
    bool ok;
    // Mode 0/2: op = (A - sigma B)^{-1}, Bop = B;  Mode 1 (buckling, K x = lambda K_G x): op = (K - sigma K_G)^{-1}, Bop = K
    // here A plays K and B plays K_G in buckling mode
    if (sparse)
    {
        Eigen::SparseMatrix<Real> As = A.sparseView(), Bs = B.sparseView();
        SymShiftInvert<Real, Eigen::Sparse, Eigen::Sparse> op(As, Bs);
        SparseSymMatProd<Real> BopB(Bs), BopA(As);
        ok = (Mode == 1) ? run(op, BopA) : run(op, BopB);
    }
    else
    {
        SymShiftInvert<Real, Eigen::Dense, Eigen::Dense> op(A, B);
        DenseSymMatProd<Real> BopB(B), BopA(A);
        ok = (Mode == 1) ? run(op, BopA) : run(op, BopB);
    }
    if (!ok)
    {
        sym::witness("end-threw");
        return;
    }
    RMat M = A - sigma * B;
    if (Mode == 0)
        symx::check_mat_eq("(A-sB)y=Bx", RVec(M * y), RVec(B * x));
    else if (Mode == 1)
        symx::check_mat_eq("(K-sKG)y=Kx", RVec(M * y), RVec(A * x));
    else
        symx::check_mat_eq("(A-sB)y=(A+sB)x", RVec(M * y), RVec((A + sigma * B) * x));
    sym::witness("end");
}
// regular-inverse mode: composition order with a user-defined B operator (solve = multiplication by a symbolic B^{-1})
struct LinOp
{
    using Scalar = Real;
    RMat M;
    mutable int n_op = 0, n_solve = 0;
    Eigen::Index rows() const { return M.rows(); }
    Eigen::Index cols() const { return M.cols(); }
    void perform_op(const Real* x, Real* y) const
    {
        n_op++;
        Eigen::Map<RVec>(y, M.rows()).noalias() = M * Eigen::Map<const RVec>(x, M.cols());
    }
    void solve(const Real* x, Real* y) const
    {
        n_solve++;
        Eigen::Map<RVec>(y, M.rows()).noalias() = M * Eigen::Map<const RVec>(x, M.cols());
    }
    void set_shift(const Real&) {}
};
static void reginv_op_case(int n)
{
    LinOp A{symx::fresh_mat("A", n, n)}, Binv{symx::fresh_mat("Binv", n, n)};
    SymGEigsRegInvOp<LinOp, LinOp> g(A, Binv);
    RVec x = symx::fresh_vec("x", n), y(n);
    g.perform_op(x.data(), y.data());
    symx::check_mat_eq("y=B^-1(Ax)", y, RVec(Binv.M * (A.M * x)));
    sym::expect("one product, one solve", A.n_op == 1 && Binv.n_solve == 1 && Binv.n_op == 0, "call counts");
    sym::witness("end");
}

// ---- back-transformations: real sort_ritzpair of the three shift modes from an arbitrary Ritz state
template <GEigsMode Mode>
static void backtransform_case(int nev, SortRule rule)
{
    const int n = nev + 2, ncv = nev + 1;
    LinOp op{RMat::Identity(n, n)}, Bop{RMat::Identity(n, n)};
    Real sigma = sym::fresh("sigma");
    bool threw = false;
    std::unique_ptr<SymGEigsShiftSolver<LinOp, LinOp, Mode>> eigs;
    try
    {
        eigs.reset(new SymGEigsShiftSolver<LinOp, LinOp, Mode>(op, Bop, nev, ncv, sigma));
    }
    catch (const std::invalid_argument&)
    {
        threw = true;
    }
    if (threw)
    {
        // only sigma == 0 may be rejected, and only in buckling / Cayley mode
        sym::expect("constructor may reject only in buckling/Cayley mode", Mode != GEigsMode::ShiftInvert, "shift-invert mode rejected a shift");
        sym::check("rejected => sigma == 0", sym::eq(sigma, Real(0)));
        sym::witness("end-rejected");
        return;
    }
    if (Mode != GEigsMode::ShiftInvert)
        sym::check("accepted => sigma != 0", sym::ne(sigma, Real(0)));
    auto& e = *eigs;
    e.m_ritz_val.resize(ncv);
    e.m_ritz_vec.resize(ncv, nev);
    e.m_ritz_conv.resize(nev);
    RVec nu = symx::fresh_vec("nu", ncv);
    RMat vecs = symx::fresh_mat("z", ncv, nev);
    for (int i = 0; i < ncv; i++)
        e.m_ritz_val[i] = nu[i];
    e.m_ritz_vec = vecs;
    for (int i = 0; i < nev; i++)
        e.m_ritz_conv[i] = (i % 2 == 0);
    {
        sym::DefScope d(sym::Def::Assume);  // nu != 0 resp. nu != 1: sigma is not an eigenvalue / the pencil is regular
        e.sort_ritzpair(rule);
    }
    // reference lambda(nu)
    std::vector<Real> lam(nev);
    {
        sym::DefScope d(sym::Def::Ignore);
        for (int i = 0; i < nev; i++)
            lam[i] = (Mode == GEigsMode::ShiftInvert) ? Real(Real(1) / nu[i] + sigma) :
                (Mode == GEigsMode::Buckling)         ? Real(sigma * nu[i] / (nu[i] - Real(1))) :
                                                        Real(sigma * (nu[i] + Real(1)) / (nu[i] - Real(1)));
    }
    // one permutation applied to value, vector column and flag alike
    std::vector<int> src(nev, -1);
    for (int i = 0; i < nev; i++)
        for (int j = 0; j < nev && src[i] < 0; j++)
        {
            bool colsame = true;
            for (int r = 0; r < ncv; r++)
                if (e.m_ritz_vec(r, i).id != vecs(r, j).id)
                    colsame = false;
            if (colsame)
                src[i] = j;
        }
    bool perm = true;
    std::vector<int> seen(nev, 0);
    for (int i = 0; i < nev; i++)
        if (src[i] < 0 || seen[src[i]]++)
            perm = false;
    sym::expect("vector columns are permuted", perm, "columns of m_ritz_vec are not a permutation of the input columns");
    if (!perm)
        return;
    for (int i = 0; i < nev; i++)
    {
        sym::check_identity("value[" + std::to_string(i) + "] = lambda(nu_src)", e.m_ritz_val[i], lam[src[i]]);
        sym::expect("flag[" + std::to_string(i) + "] follows its pair", e.m_ritz_conv[i] == (src[i] % 2 == 0), "convergence flag not permuted with its pair");
    }
    auto key = [&](const Real& x) -> Real {
        switch (rule)
        {
            case SortRule::LargestAlge: return -x;
            case SortRule::SmallestAlge: return x;
            case SortRule::LargestMagn: return -sym::abs(x);
            default: return sym::abs(x);
        }
    };
    for (int i = 0; i + 1 < nev; i++)
        sym::check("ordered by sorting rule on lambda [" + std::to_string(i) + "]", sym::le(key(e.m_ritz_val[i]), key(e.m_ritz_val[i + 1])));
    sym::witness("end");
}
// the inverse maps: nu(lambda) composed with the library's back-transformation is the identity
static void inverse_map_lemma()
{
    Real lam = sym::fresh("lambda"), sigma = sym::fresh("sigma");
    sym::assume(sym::ne(lam, sigma));
    sym::DefScope d(sym::Def::Assume);
    Real nu1 = Real(1) / (lam - sigma);
    sym::check_identity("shift-invert: 1/nu + sigma = lambda", Real(1) / nu1 + sigma, lam);
    sym::assume(sym::ne(sigma, Real(0)));
    Real nu2 = lam / (lam - sigma);
    sym::check_identity("buckling: sigma nu/(nu-1) = lambda", sigma * nu2 / (nu2 - Real(1)), lam);
    Real nu3 = (lam + sigma) / (lam - sigma);
    sym::check_identity("Cayley: sigma (nu+1)/(nu-1) = lambda", sigma * (nu3 + Real(1)) / (nu3 - Real(1)), lam);
    sym::witness("end");
}

// ---- Cholesky mode: eigenvectors() maps back with L^{-T}; the operator built from temporaries stays alive inside the solver
static void cholesky_vectors_case(int n)
{
    const int nev = 1, ncv = 2;
    RMat A = sym_mat("a", n), B = sym_mat("b", n);
    DenseSymMatProd<Real> op(A);
    DenseCholesky<Real> Bop(B);
    if (Bop.info() != CompInfo::Successful)
    {
        sym::witness("end-not-spd");
        return;
    }
    SymGEigsSolver<DenseSymMatProd<Real>, DenseCholesky<Real>, GEigsMode::Cholesky> eigs(op, Bop, nev, ncv);
    // the mode operator was passed as an rvalue: it must live in the solver's own container
    sym::expect("rvalue operator moved into the solver", eigs.m_op_container.size() == 1 && &eigs.m_op == &eigs.m_op_container.front(), "m_op does not refer to the owned copy");
    RVec x = symx::fresh_vec("x", n), y(n);
    eigs.m_op.perform_op(x.data(), y.data());  // ASan: would report a dangling reference
    eigs.m_ritz_val.resize(ncv);
    eigs.m_ritz_vec = symx::fresh_mat("z", ncv, nev);
    eigs.m_ritz_conv.resize(nev);
    eigs.m_ritz_conv[0] = true;
    eigs.m_fac.m_fac_V = symx::fresh_mat("V", n, ncv);
    RMat X = eigs.eigenvectors();
    RMat Lm = Bop.m_decomp.matrixL();
    RMat Y = eigs.m_fac.m_fac_V * eigs.m_ritz_vec;
    symx::check_mat_eq("L'X = V y", RMat(Lm.transpose() * X), Y);
    sym::check_identity("X'BX = Y'Y", (X.transpose() * B * X)(0, 0), (Y.transpose() * Y)(0, 0));
    sym::witness("end");
}

int main(int argc, char** argv)
{
    std::vector<sym::Case> cases;
    for (int n = 2; n <= 3; n++)
    {
        std::string sn = "/n" + std::to_string(n);
        cases.push_back({"op/cholesky" + sn, [n]() { cholesky_op_case(n); }});
        cases.push_back({"op/shift-invert/dense" + sn, [n]() { shift_op_case<0>(n, false); }});
        cases.push_back({"op/buckling/dense" + sn, [n]() { shift_op_case<1>(n, false); }});
        cases.push_back({"op/cayley/dense" + sn, [n]() { shift_op_case<2>(n, false); }});
        cases.push_back({"op/shift-invert/sparse" + sn, [n]() { shift_op_case<0>(n, true); }});
        cases.push_back({"op/cayley/sparse" + sn, [n]() { shift_op_case<2>(n, true); }});
        cases.push_back({"op/reginv" + sn, [n]() { reginv_op_case(n); }});
        cases.push_back({"vectors/cholesky" + sn, [n]() { cholesky_vectors_case(n); }});
    }
    const SortRule rules[] = {SortRule::LargestAlge, SortRule::SmallestAlge, SortRule::LargestMagn, SortRule::SmallestMagn};
    const char* rn[] = {"LargestAlge", "SmallestAlge", "LargestMagn", "SmallestMagn"};
    for (int nev = 1; nev <= 3; nev++)
        for (int r = 0; r < 4; r++)
        {
            SortRule rule = rules[r];
            std::string tail = "/nev" + std::to_string(nev) + "/" + rn[r];
            cases.push_back({"backtransform/shift-invert" + tail, [nev, rule]() { backtransform_case<GEigsMode::ShiftInvert>(nev, rule); }});
            cases.push_back({"backtransform/buckling" + tail, [nev, rule]() { backtransform_case<GEigsMode::Buckling>(nev, rule); }});
            cases.push_back({"backtransform/cayley" + tail, [nev, rule]() { backtransform_case<GEigsMode::Cayley>(nev, rule); }});
        }
    cases.push_back({"lemma/inverse-maps", inverse_map_lemma});
    return sym::run_main(argc, argv, cases);
}
