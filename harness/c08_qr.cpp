// C08: UpperHessenbergQR / TridiagQR, real code, with compute_rotation replaced by its contract K5
// (the real compute_rotation is checked against exactly this contract in c08_rot.cpp).
#include "symx_eigen.h"
#include <Spectra/LinAlg/UpperHessenbergQR.h>

using sym::Real;
using symx::RMat;
using symx::RVec;
using z3::expr;

static int g_rot_calls = 0;

namespace Spectra {
// contract stub: any (c, s, r) with c^2+s^2=1, r = c x - s y >= 0, s x + c y = 0; exact special case for y == 0
template <>
void UpperHessenbergQR<Real>::compute_rotation(const Real& x, const Real& y, Real& r, Real& c, Real& s)
{
    g_rot_calls++;
    if (!y.is_sym() && y.value() == 0.0)
    {
        // structurally zero sub-diagonal: the real code returns c = sign(x) (1 at 0), s = 0, r = |x|
        c = x.is_sym() ? sym::ite(sym::lt(x, Real(0)), Real(-1), Real(1)) : Real(x.value() < 0 ? -1.0 : 1.0);
        s = Real(0);
        r = sym::abs(x);
        return;
    }
    std::string k = std::to_string(g_rot_calls);
    c = sym::fresh("rc" + k);
    s = sym::fresh("rs" + k);
    r = sym::fresh("rr" + k, sym::NONNEG);
    sym::assume(sym::eq(c * c + s * s, Real(1)));
    sym::assume(sym::eq(c * x - s * y, r));
    sym::assume(sym::eq(s * x + c * y, Real(0)));
}
}  // namespace Spectra

static RMat hess(int n, const std::string& zero_pattern)
{
    // zero_pattern[i] == '0' forces sub-diagonal i to the concrete 0 (deflated blocks)
    RMat H = RMat::Zero(n, n);
    for (int i = 0; i < n; i++)
        for (int j = 0; j < n; j++)
            if (i <= j + 1)
            {
                bool z = (i == j + 1) && (int) zero_pattern.size() > j && zero_pattern[j] == '0';
                H(i, j) = z ? Real(0) : sym::fresh("h_" + std::to_string(i) + "_" + std::to_string(j));
            }
            else
                H(i, j) = sym::fresh("junk_" + std::to_string(i) + "_" + std::to_string(j));  // must be ignored
    return H;
}

template <typename QR>
static RMat explicit_Q(const QR& qr, int n)
{
    RMat Q = RMat::Identity(n, n);
    qr.apply_YQ(Q);
    return Q;
}

static void hess_case(int n, const std::string& zp)
{
    g_rot_calls = 0;
    RMat H = hess(n, zp);
    Real shift = sym::fresh("shift");
    Spectra::UpperHessenbergQR<Real> qr(H, shift);
    RMat Hh = H;  // the Hessenberg part the class documents it uses
    for (int i = 0; i < n; i++)
        for (int j = 0; j < n; j++)
            if (i > j + 1)
                Hh(i, j) = Real(0);
    RMat Q = explicit_Q(qr, n);
    RMat R = qr.matrix_R();
    {
        sym::Scope sc("Q'Q=I");
        symx::check_mat_eq("QtQ", RMat(Q.transpose() * Q), RMat::Identity(n, n));
    }
    {
        sym::Scope sc("R upper triangular");
        for (int i = 0; i < n; i++)
            for (int j = 0; j < i; j++)
                sym::check_eq("R(" + std::to_string(i) + "," + std::to_string(j) + ")", R(i, j), Real(0));
    }
    {
        sym::Scope sc("QR=H-sI");
        symx::check_mat_eq("QR", RMat(Q * R), RMat(Hh - shift * RMat::Identity(n, n)));
    }
    {
        sym::Scope sc("QtHQ");
        RMat dest;
        qr.matrix_QtHQ(dest);
        symx::check_mat_eq("QtHQ", dest, RMat(Q.transpose() * Hh * Q));
        for (int i = 0; i < n; i++)
            for (int j = 0; j + 1 < i; j++)
                sym::check_eq("hessenberg(" + std::to_string(i) + "," + std::to_string(j) + ")", dest(i, j), Real(0));
    }
    {
        sym::Scope sc("apply");
        RVec y = symx::fresh_vec("y", n);
        RVec y1 = y, y2 = y;
        qr.apply_QY(y1);
        symx::check_mat_eq("QY(vec)", y1, RVec(Q * y));
        qr.apply_QtY(y2);
        symx::check_mat_eq("QtY(vec)", y2, RVec(Q.transpose() * y));
        RMat Y = symx::fresh_mat("Y", n, 2), Y1 = Y, Y2 = Y;
        qr.apply_QY(Y1);
        symx::check_mat_eq("QY(mat)", Y1, RMat(Q * Y));
        qr.apply_QtY(Y2);
        symx::check_mat_eq("QtY(mat)", Y2, RMat(Q.transpose() * Y));
        RMat Z = symx::fresh_mat("Z", 2, n), Z1 = Z, Z2 = Z;
        qr.apply_YQ(Z1);
        symx::check_mat_eq("YQ", Z1, RMat(Z * Q));
        qr.apply_YQt(Z2);
        symx::check_mat_eq("YQt", Z2, RMat(Z * Q.transpose()));
    }
    sym::witness("end");
}

// T symmetric tridiagonal; the class documents that it reads the diagonal and the sub-diagonal only
static void tridiag_case(int n, const std::string& zp)
{
    g_rot_calls = 0;
    RMat T(n, n);
    for (int i = 0; i < n; i++)
        for (int j = 0; j < n; j++)
            T(i, j) = sym::fresh("junk_" + std::to_string(i) + "_" + std::to_string(j));
    RVec d = symx::fresh_vec("d", n), e(n > 1 ? n - 1 : 0);
    for (int i = 0; i + 1 < n; i++)
        e[i] = ((int) zp.size() > i && zp[i] == '0') ? Real(0) : sym::fresh("e_" + std::to_string(i));
    for (int i = 0; i < n; i++)
        T(i, i) = d[i];
    for (int i = 0; i + 1 < n; i++)
        T(i + 1, i) = e[i];
    Real shift = sym::fresh("shift");
    Spectra::TridiagQR<Real> qr(T, shift);
    // reference tridiagonal matrix after the documented deflation of negligible sub-diagonals
    const Real eps = sym::prof_epsilon();
    RMat Tt = RMat::Zero(n, n);
    for (int i = 0; i < n; i++)
        Tt(i, i) = d[i];
    for (int i = 0; i + 1 < n; i++)
    {
        Real ei = e[i];
        if (ei.is_sym())
            ei = sym::ite(sym::le(sym::abs(e[i]), eps * (sym::abs(d[i]) + sym::abs(d[i + 1]))), Real(0), e[i]);
        Tt(i + 1, i) = ei;
        Tt(i, i + 1) = ei;
    }
    RMat Q = explicit_Q(qr, n);
    RMat R = qr.matrix_R();
    {
        sym::Scope sc("Q'Q=I");
        symx::check_mat_eq("QtQ", RMat(Q.transpose() * Q), RMat::Identity(n, n));
    }
    {
        sym::Scope sc("R upper triangular");
        for (int i = 0; i < n; i++)
            for (int j = 0; j < i; j++)
                sym::check_eq("R(" + std::to_string(i) + "," + std::to_string(j) + ")", R(i, j), Real(0));
    }
    {
        sym::Scope sc("QR=T-sI");
        symx::check_mat_eq("QR", RMat(Q * R), RMat(Tt - shift * RMat::Identity(n, n)));
    }
    {
        sym::Scope sc("QtHQ");
        RMat dest;
        qr.matrix_QtHQ(dest);
        RMat ref = Q.transpose() * Tt * Q;
        for (int i = 0; i < n; i++)
            for (int j = 0; j < n; j++)
            {
                std::string nm = "QtTQ(" + std::to_string(i) + "," + std::to_string(j) + ")";
                if (i == j)
                    sym::check_eq(nm, dest(i, j), ref(i, j));
                else if (i == j + 1 || j == i + 1)
                {
                    // result deflation (a fork in the real code): on the path where the entry was kept it must equal the
                    // reference exactly; on the path where it was zeroed the reference must be negligible against the
                    // returned diagonal (eps * (|d_i| + |d_i+1|), the documented deflation rule)
                    int lo = std::min(i, j);
                    Real sub = ref(lo + 1, lo);
                    if (dest(i, j).is_sym())
                        sym::check_eq(nm, dest(i, j), sub);
                    else if (!getenv("VERIF_DEFLATED_OBLIGATIONS"))
                        sym::note("skipped", "result-deflation tolerance obligation (thorough tier only)");
                    else
                        sym::check(nm + ":deflated", sym::eq(dest(i, j), Real(0)) &&
                                       (sym::eq(sub, Real(0)) || sym::le(sym::abs(sub), eps * (sym::abs(dest(lo, lo)) + sym::abs(dest(lo + 1, lo + 1))))));
                }
                else
                {
                    sym::check_eq(nm + ":band", dest(i, j), Real(0));
                    sym::check_eq(nm + ":ref-band", ref(i, j), Real(0));
                }
            }
        for (int i = 0; i + 1 < n; i++)
            sym::check_eq("sym(" + std::to_string(i) + ")", dest(i + 1, i), dest(i, i + 1));
    }
    {
        sym::Scope sc("apply");
        RVec y = symx::fresh_vec("y", n);
        RVec y1 = y, y2 = y;
        qr.apply_QY(y1);
        symx::check_mat_eq("QY(vec)", y1, RVec(Q * y));
        qr.apply_QtY(y2);
        symx::check_mat_eq("QtY(vec)", y2, RVec(Q.transpose() * y));
        RMat Z = symx::fresh_mat("Z", 1, n), Z2 = Z;
        qr.apply_YQt(Z2);
        symx::check_mat_eq("YQt", Z2, RMat(Z * Q.transpose()));
    }
    sym::witness("end");
}

// shift equal to an exact eigenvalue (the only shifts the solvers use): the last rotation leaves R(n-1,n-1) = 0 and
// Q'TQ has T+(n-1,n-2) = 0, T+(n-1,n-1) = shift  (C04's exact-shift deflation obligation shares this case)
static void tridiag_exact_shift_case(int n)
{
    g_rot_calls = 0;
    RVec d = symx::fresh_vec("d", n), e = symx::fresh_vec("e", n - 1);
    RMat T = RMat::Zero(n, n);
    for (int i = 0; i < n; i++)
        T(i, i) = d[i];
    for (int i = 0; i + 1 < n; i++)
    {
        sym::assume(sym::ne(e[i], Real(0)));  // unreduced, so R(i,i) != 0 for i < n-1
        T(i + 1, i) = e[i];
        T(i, i + 1) = e[i];
    }
    Real mu = sym::fresh("mu");
    // mu is an eigenvalue: det(T - mu I) = 0 via the three-term recurrence
    Real p0(1), p1 = d[0] - mu;
    for (int i = 1; i < n; i++)
    {
        Real p2 = (d[i] - mu) * p1 - e[i - 1] * e[i - 1] * p0;
        p0 = p1;
        p1 = p2;
    }
    sym::assume(sym::eq(p1, Real(0)));
    // keep sub-diagonals clearly non-negligible so that the deflation tests are not what we explore here
    for (int i = 0; i + 1 < n; i++)
        sym::assume(sym::lt(sym::prof_epsilon() * (sym::abs(d[i]) + sym::abs(d[i + 1])), sym::abs(e[i])));
    Spectra::TridiagQR<Real> qr(T, mu);
    RMat R = qr.matrix_R();
    sym::check_eq("R(n-1,n-1)=0", R(n - 1, n - 1), Real(0));
    RMat dest;
    qr.matrix_QtHQ(dest);
    sym::check_eq("T+(n-1,n-2)=0", dest(n - 1, n - 2), Real(0));
    sym::check_eq("T+(n-1,n-1)=mu", dest(n - 1, n - 1), mu);
    sym::witness("end");
}

int main(int argc, char** argv)
{
    std::vector<sym::Case> cases;
    for (int n = 2; n <= 5; n++)
    {
        cases.push_back({"hess/n" + std::to_string(n) + "/full", [n]() { hess_case(n, ""); }});
        cases.push_back({"tridiag/n" + std::to_string(n) + "/full", [n]() { tridiag_case(n, ""); }});
    }
    // matrices with exact zeros on the sub-diagonal (already deflated blocks)
    cases.push_back({"hess/n3/zero0", []() { hess_case(3, "0"); }});
    cases.push_back({"hess/n3/zero1", []() { hess_case(3, "10"); }});
    cases.push_back({"hess/n3/zero01", []() { hess_case(3, "00"); }});
    cases.push_back({"hess/n4/zero1", []() { hess_case(4, "101"); }});
    cases.push_back({"tridiag/n3/zero0", []() { tridiag_case(3, "0"); }});
    cases.push_back({"tridiag/n3/zero1", []() { tridiag_case(3, "10"); }});
    cases.push_back({"tridiag/n4/zero1", []() { tridiag_case(4, "101"); }});
    cases.push_back({"tridiag-exact-shift/n2", []() { tridiag_exact_shift_case(2); }});
    cases.push_back({"tridiag-exact-shift/n3", []() { tridiag_exact_shift_case(3); }});
    return sym::run_main(argc, argv, cases);
}
