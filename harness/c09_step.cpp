// C09, iterative part: the implicit QR iteration of TridiagEigen does not terminate in closed form for n >= 3, so whole runs are
// out of reach.  What IS decidable is the inductive step and the driver around it:
//   (1) one real tridiagonal_qr_step (Wilkinson shift, bulge chase, accumulation into Q) from an ARBITRARY state
//       (symmetric tridiagonal T in (diag, subdiag), orthogonal accumulator Q, active block [start, end]) preserves the invariant
//       of the whole iteration: Q' orthogonal, Q' T' Q'^T = Q T Q^T, T' symmetric tridiagonal (the bulge is chased out completely),
//       entries outside the active block untouched.  With the invariant, termination (all sub-diagonals deflated) yields
//       T Z = Z diag(d), Z'Z = I in exact arithmetic.
//   (2) -DC09_STUB_STEP: the driver loop of compute() with the step replaced by a specification stub that makes NO progress (a valid
//       similarity: the identity): the iteration cap is reached, std::runtime_error leaves compute(), and the object never reports
//       results (m_computed stays false).  A second stub deflates at once: compute() returns the stub's eigen-data scaled back.
// Eigen's JacobiRotation::makeGivens is replaced by its contract (c^2+s^2 = 1, G^T (p,q)^T = (r,0)) in (1); the contract is checked
// on Eigen's real makeGivens in case givens/real.
#include "symx_eigen.h"
#include <Eigen/Jacobi>

using sym::Real;
using symx::RMat;
using symx::RVec;

static bool g_givens_contract = false;
static int g_givens_calls = 0;
namespace Eigen {
template <>
void JacobiRotation<Real>::makeGivens(const Real& p, const Real& q, Real* r)
{
    if (!g_givens_contract)
    {
        makeGivens(p, q, r, internal::false_type());  // Eigen's real code
        return;
    }
    g_givens_calls++;
    std::string k = std::to_string(g_givens_calls);
    if (!q.is_sym() && q.value() == 0.0)
    {
        // Eigen: q == 0 -> c = sign(p), s = 0, r = |p|
        m_c = p.is_sym() ? sym::ite(sym::lt(p, Real(0)), Real(-1), Real(1)) : Real(p.value() < 0 ? -1.0 : 1.0);
        m_s = Real(0);
        if (r)
            *r = sym::abs(p);
        return;
    }
    m_c = sym::fresh("gc" + k);
    m_s = sym::fresh("gs" + k);
    sym::assume(sym::eq(m_c * m_c + m_s * m_s, Real(1)));
    sym::assume(sym::eq(m_s * p + m_c * q, Real(0)));  // second component of G^T (p,q)^T
    if (r)
        *r = m_c * p - m_s * q;
}
}  // namespace Eigen

#include <Spectra/LinAlg/TridiagEigen.h>

#ifdef C09_STUB_STEP
static int g_step_calls = 0;
static int g_step_mode = 0;  // 0: no progress; 1: deflate everything at once with fresh eigen-data
static std::vector<Real> g_lam;
namespace Spectra {
template <>
void TridiagEigen<Real>::tridiagonal_qr_step(Real* diag, Real* subdiag, Eigen::Index start, Eigen::Index end, Real* matrixQ, Eigen::Index n)
{
    g_step_calls++;
    if (g_step_mode == 0)
        return;  // identity similarity: valid, no progress
    for (Eigen::Index i = start; i < end; i++)
        subdiag[i] = Real(0);
    g_lam.assign(n, Real(0));
    for (Eigen::Index i = start; i <= end; i++)
        diag[i] = g_lam[i] = sym::fresh("lam_" + std::to_string(i));
}
}  // namespace Spectra
#endif

#ifdef C09_STUB_STEP
#include <Spectra/LinAlg/UpperHessenbergSchur.h>
static int g_francis_calls = 0;
namespace Spectra {
// specification stub of one Francis step that makes no progress (the identity is a valid orthogonal similarity)
template <>
void UpperHessenbergSchur<Real>::perform_francis_qr_step(Index il, Index im, Index iu, const Vector3s& first_householder_vec, const Real& near_0)
{
    g_francis_calls++;
}
}  // namespace Spectra
#endif

using namespace Spectra;

static RMat frame(int n)
{
    RMat Q(n, n);
    auto R = [](long p, long q) { return sym::rational(p, q); };
    if (n == 2)
        Q << R(3, 5), R(4, 5), R(4, 5), R(-3, 5);
    else if (n == 3)
        Q << R(1, 3), R(2, 3), R(2, 3), R(2, 3), R(1, 3), R(-2, 3), R(2, 3), R(-2, 3), R(1, 3);
    else
        Q << R(1, 2), R(1, 2), R(1, 2), R(1, 2), R(1, 2), R(-1, 2), R(1, 2), R(-1, 2), R(1, 2), R(1, 2), R(-1, 2), R(-1, 2), R(1, 2), R(-1, 2), R(-1, 2), R(1, 2);
    return Q;
}

static RMat tri(const RVec& d, const RVec& e)
{
    int n = d.size();
    RMat T = RMat::Zero(n, n);
    for (int i = 0; i < n; i++)
    {
        T(i, i) = d[i];
        if (i + 1 < n)
        {
            T(i + 1, i) = e[i];
            T(i, i + 1) = e[i];
        }
    }
    return T;
}

#ifndef C09_STUB_STEP
#include <Spectra/LinAlg/UpperHessenbergSchur.h>
// One real Francis double-shift step of UpperHessenbergSchur (compute_shift, init_francis_qr_step, perform_francis_qr_step with
// Eigen's real makeHouseholder - one radical - and the rotation contract for the trailing 2-row block) on an unreduced 3x3 window
// from an arbitrary state (symbolic Hessenberg T, rational orthogonal U): U' orthogonal, U'T'U'^T = U T U^T, T' upper Hessenberg
// (the entries the code 'cleans up' must really be zero), the sum of exceptional shifts unchanged by an ordinary step.
static void francis_step_case(int n)
{
    g_givens_contract = true;
    g_givens_calls = 0;
    sym::set_max_decisions(200);
    RMat H = RMat::Zero(n, n);
    for (int i = 0; i < n; i++)
        for (int j = 0; j < n; j++)
            if (i <= j + 1)
                H(i, j) = sym::fresh("h_" + std::to_string(i) + "_" + std::to_string(j));
    for (int i = 0; i + 1 < n; i++)
        sym::assume(sym::ne(H(i + 1, i), Real(0)));  // unreduced window
    UpperHessenbergSchur<Real> schur;
    schur.m_n = n;
    schur.m_T = H;
    schur.m_U = frame(n);
    RMat M0 = schur.m_U * H * schur.m_U.transpose();
    Real ex_shift(0);
    Eigen::Matrix<Real, 3, 1> shift_info, v = Eigen::Matrix<Real, 3, 1>::Zero();
    const Eigen::Index il = n - 3, iu = n - 1;
    Eigen::Index im = -1;
    {
        sym::DefScope ds(sym::Def::Assume);  // divisions by sub-diagonal entries (non-zero on an unreduced window) and by beta
        schur.compute_shift(iu, 1, ex_shift, shift_info);
        schur.init_francis_qr_step(il, iu, shift_info, im, v);
        // near_0 = 0: "negligible" then means exactly zero, so that skipping a reflector / the rotation is exact; compute() passes
        // max(norm * eps^2, min), with which the skipped transformations are correct to that threshold only (eps-level by design)
        schur.perform_francis_qr_step(il, im, iu, v, Real(0));
    }
    sym::expect("ordinary step leaves the exceptional-shift sum alone", !ex_shift.is_sym() && ex_shift.value() == 0.0, "ex_shift changed");
    const RMat& T1 = schur.m_T;
    const RMat& U1 = schur.m_U;
    for (int i = 0; i < n; i++)
        for (int j = 0; j < n; j++)
            if (i > j + 1)
                sym::expect("T' upper Hessenberg(" + std::to_string(i) + "," + std::to_string(j) + ")", !T1(i, j).is_sym() && T1(i, j).value() == 0.0, "entry below the sub-diagonal is not 0");
    symx::check_mat_eq("U'U'^T=I", RMat(U1 * U1.transpose()), RMat::Identity(n, n));
    symx::check_mat_eq("U'T'U'^T=UTU^T", RMat(U1 * T1 * U1.transpose()), M0);
    sym::witness("end");
}

// Eigen's real makeGivens against the contract the step cases use
static void givens_case()
{
    g_givens_contract = false;  // a worker process runs paths of several cases one after the other: reset what step_case() sets
    Real p = sym::fresh("p"), q = sym::fresh("q"), r;
    Eigen::JacobiRotation<Real> rot;
    rot.makeGivens(p, q, &r);
    Real c = rot.c(), s = rot.s();
    sym::check_identity("c^2+s^2=1", c * c + s * s, Real(1));
    sym::check_identity("s p + c q = 0", s * p + c * q, Real(0));
    sym::check_identity("c p - s q = r", c * p - s * q, r);
    sym::witness("end");
}

// one real QR step from an arbitrary state; zero_at >= 0 forces subdiag[zero_at] = 0 outside the active block
static void step_case(int n, int start, int end)
{
    g_givens_contract = true;
    g_givens_calls = 0;
    RVec d(n), e(n - 1);
    for (int i = 0; i < n; i++)
        d[i] = sym::fresh("d" + std::to_string(i));
    for (int i = 0; i + 1 < n; i++)
    {
        bool inside = i >= start && i < end;
        bool border = (i == start - 1) || (i == end);
        e[i] = border ? Real(0) : sym::fresh("e" + std::to_string(i));  // the active block is delimited by exact zeros, as compute() guarantees
        if (inside)
            sym::assume(sym::ne(e[i], Real(0)));  // unreduced inside (compute() only passes such blocks)
    }
    RMat Q = frame(n);
    RMat T0 = tri(d, e);
    RMat M0 = Q * T0 * Q.transpose();
    RVec d1 = d, e1 = e;
    RMat Q1 = Q;
    TridiagEigen<Real>::tridiagonal_qr_step(d1.data(), e1.data(), start, end, Q1.data(), n);
    sym::note("rotations", std::to_string(g_givens_calls));
    RMat T1 = tri(d1, e1);
    symx::check_mat_eq("Q'Q'^T=I", RMat(Q1 * Q1.transpose()), RMat::Identity(n, n));
    symx::check_mat_eq("Q'T'Q'^T=QTQ^T", RMat(Q1 * T1 * Q1.transpose()), M0);
    bool untouched = true;
    for (int i = 0; i < n; i++)
        if ((i < start || i > end) && !(d1[i].id == d[i].id))
            untouched = false;
    for (int i = 0; i + 1 < n; i++)
        if ((i < start - 1 || i > end) && !(e1[i].id == e[i].id))
            untouched = false;
    sym::expect("entries outside the active block untouched", untouched, "diag / subdiag outside [start, end] modified");
    sym::expect("at least one rotation applied", g_givens_calls >= 1, "no rotation on an unreduced block");
    sym::witness("end");
}
#else
static void cap_case(int n)
{
    g_step_mode = 0;
    g_step_calls = 0;
    RVec d(n), e(n - 1);
    for (int i = 0; i < n; i++)
        d[i] = sym::fresh("d" + std::to_string(i));
    for (int i = 0; i + 1 < n; i++)
        e[i] = sym::fresh("e" + std::to_string(i));
    // clearly unreduced: no sub-diagonal is negligible, so the driver must keep iterating
    for (int i = 0; i + 1 < n; i++)
        sym::assume(sym::lt(Real(1e-3) * (sym::abs(d[i]) + sym::abs(d[i + 1])) + Real(1e-3), sym::abs(e[i])));
    for (int i = 0; i < n; i++)
        sym::assume(sym::le(sym::abs(d[i]), Real(1000)));
    for (int i = 0; i + 1 < n; i++)
        sym::assume(sym::le(sym::abs(e[i]), Real(1000)));
    RMat T = tri(d, e);
    TridiagEigen<Real> eig;
    bool threw = false;
    try
    {
        eig.compute(T);
    }
    catch (const std::runtime_error&)
    {
        threw = true;
    }
    sym::note("step calls", std::to_string(g_step_calls));
    sym::expect("a stalled iteration ends with std::runtime_error", threw, "compute() returned although no sub-diagonal was deflated");
    sym::expect("the driver gave up after a bounded number of steps", g_step_calls >= 1, "steps: " + std::to_string(g_step_calls));
    sym::expect("no results are reported after the failure", !eig.m_computed, "m_computed set");
    bool acc_threw = false;
    try
    {
        eig.eigenvalues();
    }
    catch (const std::logic_error&)
    {
        acc_threw = true;
    }
    sym::expect("accessors refuse after the failure", acc_threw, "eigenvalues() returned numbers");
    sym::witness("end");
}
// UpperHessenbergSchur: a stalled Francis iteration on an unreduced 3x3 window (incl. the two exceptional shifts at iterations 10
// and 30) ends with std::runtime_error after 40 n steps and never reports results
static void schur_cap_case(int n)
{
    g_francis_calls = 0;
    sym::set_max_decisions(4000);
    RMat H = RMat::Zero(n, n);
    for (int i = 0; i < n; i++)
        for (int j = 0; j < n; j++)
            if (i <= j + 1)
                H(i, j) = sym::fresh("h_" + std::to_string(i) + "_" + std::to_string(j));
    for (int i = 0; i < n; i++)
        for (int j = 0; j < n; j++)
            if (H(i, j).is_sym())
                sym::assume(sym::le(sym::abs(H(i, j)), Real(1000)));
    // Domain: numeric sub-diagonals (1, 1/2, ...) and a numeric trailing super-diagonal entry (-4) with |h(n-2,n-2) - h(n-1,n-1)| < 4,
    // i.e. the trailing 2x2 block has a complex pair: every test of the driver is then linear in the symbolic entries and the second
    // exceptional shift (iteration 30) takes its 'no real shift' branch.  All other entries are symbolic, |.| <= 1000.
    for (int i = 0; i + 1 < n; i++)
        H(i + 1, i) = sym::rational(1, i + 1);
    H(n - 2, n - 1) = sym::rational(-4, 1);
    sym::assume(sym::lt(sym::abs(H(n - 2, n - 2) - H(n - 1, n - 1)), Real(4)));
    UpperHessenbergSchur<Real> schur;
    bool threw = false;
    try
    {
        sym::DefScope ds(sym::Def::Assume);  // the exceptional shift divides by a quantity that is non-zero on its branch
        schur.compute(H);
    }
    catch (const std::runtime_error&)
    {
        threw = true;
    }
    sym::note("francis calls", std::to_string(g_francis_calls));
    sym::expect("a stalled iteration ends with std::runtime_error", threw, "compute() returned although the window never deflated");
    sym::expect("the driver gave up after a bounded number of steps", g_francis_calls >= 1, "steps: " + std::to_string(g_francis_calls));
    sym::expect("no results are reported after the failure", !schur.m_computed, "m_computed set");
    bool acc_threw = false;
    try
    {
        schur.matrix_T();
    }
    catch (const std::logic_error&)
    {
        acc_threw = true;
    }
    sym::expect("accessors refuse after the failure", acc_threw, "matrix_T() returned numbers");
    sym::witness("end");
}
static void deflate_case(int n)
{
    g_step_mode = 1;
    g_step_calls = 0;
    RVec d(n), e(n - 1);
    for (int i = 0; i < n; i++)
        d[i] = sym::fresh("d" + std::to_string(i));
    for (int i = 0; i + 1 < n; i++)
        e[i] = sym::fresh("e" + std::to_string(i));
    for (int i = 0; i + 1 < n; i++)
        sym::assume(sym::lt(Real(1e-3) * (sym::abs(d[i]) + sym::abs(d[i + 1])) + Real(1e-3), sym::abs(e[i])));
    for (int i = 0; i < n; i++)
        sym::assume(sym::le(sym::abs(d[i]), Real(1000)));
    for (int i = 0; i + 1 < n; i++)
        sym::assume(sym::le(sym::abs(e[i]), Real(1000)));
    RMat T = tri(d, e);
    TridiagEigen<Real> eig(T);
    sym::expect("the step was applied to the unreduced matrix", g_step_calls >= 1, "steps: " + std::to_string(g_step_calls));
    // eigenvalues() = scale * (what the step left on the diagonal), scale = max |entry|
    Real scale = sym::abs(d[0]);
    for (int i = 1; i < n; i++)
        scale = sym::smax(scale, sym::abs(d[i]));
    for (int i = 0; i + 1 < n; i++)
        scale = sym::smax(scale, sym::abs(e[i]));
    RVec ev = eig.eigenvalues();
    for (int i = 0; i < n; i++)
        sym::check_eq("eigenvalue scaled back[" + std::to_string(i) + "]", ev[i], g_lam[i] * scale);
    sym::witness("end");
}
#endif

int main(int argc, char** argv)
{
    std::vector<sym::Case> cases;
#ifndef C09_STUB_STEP
    cases.push_back({"givens/real", givens_case});
    cases.push_back({"francis-step/n3", []() { francis_step_case(3); }});
    cases.push_back({"trideig-step/n2/s0e1", []() { step_case(2, 0, 1); }});
    cases.push_back({"trideig-step/n3/s0e2", []() { step_case(3, 0, 2); }});
    cases.push_back({"trideig-step/n3/s0e1", []() { step_case(3, 0, 1); }});
    cases.push_back({"trideig-step/n3/s1e2", []() { step_case(3, 1, 2); }});
    cases.push_back({"trideig-step/n4/s0e3", []() { step_case(4, 0, 3); }});
    cases.push_back({"trideig-step/n4/s1e3", []() { step_case(4, 1, 3); }});
    cases.push_back({"trideig-step/n4/s0e2", []() { step_case(4, 0, 2); }});
    cases.push_back({"trideig-step/n4/s1e2", []() { step_case(4, 1, 2); }});
#else
    cases.push_back({"trideig-cap/n2", []() { cap_case(2); }});
    cases.push_back({"trideig-cap/n3", []() { cap_case(3); }});
    cases.push_back({"trideig-driver-deflate/n3", []() { deflate_case(3); }});
    cases.push_back({"schur-cap/n3", []() { schur_cap_case(3); }});
#endif
    return sym::run_main(argc, argv, cases);
}
