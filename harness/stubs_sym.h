// Mode A (DESIGN.md section 5): specification stubs for the numeric kernels below the symmetric solver glue.
// The real HermEigsBase / SymEigsSolver / SymEigsShiftSolver / argsort / Lanczos::compress_H code runs on top of
//   K1  TridiagEigen<sym::Real>          fresh Ritz values / vectors per call, tagged with the generation of H
//   K3  Arnoldi::init, Lanczos::factorize_from, Arnoldi::compress_V   fresh (V, H, f, beta) with validity tracking
//   K4  TridiagQR<sym::Real>             records shifts, returns a fresh tridiagonal Q'HQ
// Include this header instead of the Spectra solver headers.
#pragma once
#include "symx_eigen.h"
#include <Spectra/LinAlg/TridiagEigen.h>
#include <Spectra/LinAlg/UpperHessenbergQR.h>
#include <Spectra/MatOp/internal/ArnoldiOp.h>
#include <Spectra/Util/CompInfo.h>
#include <Spectra/Util/SelectionRule.h>
#include <Spectra/Util/SimpleRandom.h>

namespace stubs {
using sym::Real;
using symx::RMat;
using symx::RVec;

// user operator of the mode-A runs: never applied (every kernel that would apply it is stubbed)
struct AbstractOp
{
    using Scalar = Real;
    int n;
    mutable int applied = 0;
    mutable int shift_sets = 0;
    explicit AbstractOp(int n_) : n(n_) {}
    Eigen::Index rows() const { return n; }
    Eigen::Index cols() const { return n; }
    void perform_op(const Real*, Real*) const { applied++; }
    void set_shift(const Real&) { shift_sets++; }
};

struct State
{
    int gen = 0;          // generation of (V, H, f, beta): bumped by every kernel that rewrites them
    int valid_k = -1;     // dimension at which (V, H, f, beta) is a valid Krylov factorization (-1: none)
    long true_ops = 0;    // operator applications the kernels really perform
    int restarts = 0;     // number of compress_V calls (= implicit restarts)
    int eig_calls = 0;
    int eig_gen = -1;     // generation of H the latest Ritz data were computed from
    RVec theta;           // latest Ritz values handed out by K1 (unsorted, as K1 returns them)
    RMat Z;               // latest Ritz vectors
    std::vector<std::vector<Real>> shifts;  // per restart, the shifts applied (in order)
    std::vector<int> restart_k;             // per restart, the dimension kept
    std::vector<RVec> ritz_at_restart;      // per restart, the solver's sorted Ritz values when restart() started
    std::vector<std::string> precondition_violations;
    bool full_space_exact = true;  // beta := 0 when the factorization spans the whole space (exact arithmetic)
    void reset() { *this = State(); }
};
inline State& st()
{
    static State s;
    return s;
}
inline std::string tag(const char* what, int g) { return std::string(what) + "g" + std::to_string(g); }

inline void fresh_tridiag_rows(RMat& H, int from, int to, int g)
{
    // rows/cols [from, to): new diagonal alpha_i and sub-diagonal beta_i (>= 0: it is a norm, or 0 after a breakdown)
    for (int i = from; i < to; i++)
    {
        H(i, i) = sym::fresh(tag("alpha", g) + "_" + std::to_string(i));
        if (i >= 1)
        {
            Real b = sym::fresh(tag("subd", g) + "_" + std::to_string(i), sym::NONNEG);
            H(i, i - 1) = b;
            H(i - 1, i) = b;
        }
    }
}
}  // namespace stubs

namespace Spectra {

// ---------------- K1 ----------------
template <>
class TridiagEigen<sym::Real>
{
    using Matrix = symx::RMat;
    using Vector = symx::RVec;
    Vector m_evals;
    Matrix m_evecs;

public:
    TridiagEigen() {}
    TridiagEigen(const Eigen::Ref<const Matrix>& mat) { compute(mat); }
    void compute(const Eigen::Ref<const Matrix>& mat)
    {
        stubs::State& s = stubs::st();
        const int n = mat.rows();
        s.eig_calls++;
        s.eig_gen = s.gen;
        m_evals.resize(n);
        m_evecs.resize(n, n);
        std::string g = "e" + std::to_string(s.eig_calls);
        for (int i = 0; i < n; i++)
            m_evals[i] = sym::fresh("theta" + g + "_" + std::to_string(i));
        for (int i = 0; i < n; i++)
            for (int j = 0; j < n; j++)
                m_evecs(i, j) = sym::fresh("z" + g + "_" + std::to_string(i) + "_" + std::to_string(j));
        s.theta = m_evals;
        s.Z = m_evecs;
    }
    const Vector& eigenvalues() const { return m_evals; }
    const Matrix& eigenvectors() const { return m_evecs; }
};

// ---------------- K4 ----------------
template <>
class TridiagQR<sym::Real>
{
    using Matrix = symx::RMat;
    Eigen::Index m_n;
    sym::Real m_shift;
    bool m_computed = false;

public:
    TridiagQR(Eigen::Index size) : m_n(size) {}
    void compute(const Eigen::Ref<const Matrix>& mat, const sym::Real& shift = sym::Real(0))
    {
        m_n = mat.rows();
        m_shift = shift;
        m_computed = true;
        stubs::State& s = stubs::st();
        if (s.shifts.empty() || (int) s.shifts.size() <= s.restarts)
            s.shifts.resize(s.restarts + 1);
        s.shifts[s.restarts].push_back(shift);
    }
    void apply_YQ(Eigen::Ref<Matrix> Y) const
    {
        if (!m_computed)
            throw std::logic_error("TridiagQR: need to call compute() first");
        // Q is abstract: the contents of Y are replaced by fresh symbols (compress_V does not look at them here)
        (void) Y;
    }
    void matrix_QtHQ(Matrix& dest) const
    {
        if (!m_computed)
            throw std::logic_error("TridiagQR: need to call compute() first");
        stubs::State& s = stubs::st();
        s.gen++;
        s.valid_k = -1;  // H changed, V not yet: no valid factorization until compress_V
        dest.resize(m_n, m_n);
        dest.setZero();
        stubs::fresh_tridiag_rows(dest, 0, (int) m_n, s.gen);
    }
};
}  // namespace Spectra

#include <Spectra/LinAlg/Lanczos.h>

namespace Spectra {
using AOpT = ArnoldiOp<sym::Real, stubs::AbstractOp, IdentityBOp>;

// ---------------- K3 ----------------
template <>
void Arnoldi<sym::Real, AOpT>::init(MapConstVec& v0, Index& op_counter)
{
    stubs::State& s = stubs::st();
    m_fac_V.resize(m_n, m_m);
    m_fac_H.resize(m_m, m_m);
    m_fac_f.resize(m_n);
    m_fac_H.setZero();
    const RealScalar v0norm = m_op.norm(v0);  // real code path: v0 is concrete in these runs
    if (v0norm < m_near_0)
        throw std::invalid_argument("initial residual vector cannot be zero");
    s.gen++;
    for (Index i = 0; i < m_n; i++)
        for (Index j = 0; j < m_m; j++)
            m_fac_V(i, j) = sym::fresh(stubs::tag("V", s.gen) + "_" + std::to_string(i) + "_" + std::to_string(j));
    m_fac_H(0, 0) = sym::fresh(stubs::tag("alpha", s.gen) + "_0");
    for (Index i = 0; i < m_n; i++)
        m_fac_f[i] = sym::fresh(stubs::tag("f", s.gen) + "_" + std::to_string(i));
    m_beta = sym::fresh(stubs::tag("beta", s.gen), sym::NONNEG);
    op_counter += 2;
    s.true_ops = 2;  // "since init()": the solver's init() has just reset its counter
    m_k = 1;
    s.valid_k = 1;
}

template <>
void Lanczos<sym::Real, AOpT>::factorize_from(Index from_k, Index to_m, Index& op_counter)
{
    stubs::State& s = stubs::st();
    if (to_m <= from_k)
        return;
    if (from_k > m_k)
        throw std::invalid_argument("Lanczos: from_k is larger than the current subspace dimension");
    // contract precondition: (V, H, f, beta) is a valid factorization of dimension exactly from_k
    if (s.valid_k != from_k)
        s.precondition_violations.push_back("factorize_from(from_k=" + std::to_string(from_k) + ") on a factorization valid at k=" +
                                            std::to_string(s.valid_k) + " (m_k=" + std::to_string(m_k) + ")");
    s.gen++;
    m_fac_H.rightCols(m_m - from_k).setZero();
    m_fac_H.block(from_k, 0, m_m - from_k, from_k).setZero();
    stubs::fresh_tridiag_rows(m_fac_H, (int) from_k, (int) to_m, s.gen);
    for (Index i = 0; i < m_n; i++)
        for (Index j = from_k; j < to_m; j++)
            m_fac_V(i, j) = sym::fresh(stubs::tag("V", s.gen) + "_" + std::to_string(i) + "_" + std::to_string(j));
    for (Index i = 0; i < m_n; i++)
        m_fac_f[i] = sym::fresh(stubs::tag("f", s.gen) + "_" + std::to_string(i));
    if (to_m == m_n && s.full_space_exact)
        m_beta = sym::Real(0);  // V spans the whole space: f = 0 in exact arithmetic
    else
        m_beta = sym::fresh(stubs::tag("beta", s.gen), sym::NONNEG);
    op_counter += (to_m - from_k);
    s.true_ops += (to_m - from_k);
    m_k = to_m;
    s.valid_k = (int) to_m;
}

template <>
template <>
void Arnoldi<sym::Real, AOpT>::compress_V<symx::RMat>(const Eigen::MatrixBase<symx::RMat>& Q)
{
    stubs::State& s = stubs::st();
    // index discipline of the real code is kept: it reads Q(m_m - 1, m_k - 1), Q.col(m_k), H(m_k, m_k - 1)
    if (m_k < 1 || m_k >= m_m)
        throw sym::EigenAssert("compress_V: kept dimension k=" + std::to_string(m_k) + " outside [1, m-1]");
    (void) Q;
    s.gen++;
    for (Index i = 0; i < m_n; i++)
        for (Index j = 0; j <= m_k; j++)
            m_fac_V(i, j) = sym::fresh(stubs::tag("V", s.gen) + "_" + std::to_string(i) + "_" + std::to_string(j));
    for (Index i = 0; i < m_n; i++)
        m_fac_f[i] = sym::fresh(stubs::tag("f", s.gen) + "_" + std::to_string(i));
    m_beta = sym::fresh(stubs::tag("beta", s.gen), sym::NONNEG);
    s.restart_k.push_back((int) m_k);
    s.restarts++;
    s.valid_k = (int) m_k;
}
}  // namespace Spectra

#include <Spectra/SymEigsSolver.h>
#include <Spectra/SymEigsShiftSolver.h>
