// C15: Davidson solver building blocks, real code (RitzPairs, SearchSpace, DavidsonSymEigsSolver::calculate_correction_vector,
// setup_initial_search_space, JDSymEigsBase bookkeeping) from an arbitrary valid search space.  The small dense eigen-problem
// (Eigen::SelfAdjointEigenSolver, K6) is a contract stub: ascending eigenvalues, S Z = Z D.
#include "symx_eigen.h"
#include <Eigen/Eigenvalues>

namespace c15 {
struct K6
{
    int calls = 0;
    symx::RMat S, Z;
    symx::RVec d;
};
inline K6& k6()
{
    static K6 s;
    return s;
}
}  // namespace c15

namespace Eigen {
template <>
class SelfAdjointEigenSolver<symx::RMat>
{
    symx::RVec m_d;
    symx::RMat m_Z;

public:
    SelfAdjointEigenSolver() {}
    explicit SelfAdjointEigenSolver(const symx::RMat& S) { compute(S); }
    SelfAdjointEigenSolver& compute(const symx::RMat& S, int = ComputeEigenvectors)
    {
        c15::K6& k = c15::k6();
        k.calls++;
        const int n = S.rows();
        std::string g = "k6_" + std::to_string(k.calls) + "_";
        m_d = symx::fresh_vec(g + "d", n);
        m_Z = symx::fresh_mat(g + "z", n, n);
        for (int i = 0; i + 1 < n; i++)
            sym::assume(sym::le(m_d[i], m_d[i + 1]));  // ascending
        symx::RMat L = S * m_Z;
        for (int i = 0; i < n; i++)
            for (int j = 0; j < n; j++)
                sym::assume(sym::eq(L(i, j), m_Z(i, j) * m_d[j]));  // S Z = Z D
        k.S = S;
        k.Z = m_Z;
        k.d = m_d;
        return *this;
    }
    const symx::RVec& eigenvalues() const { return m_d; }
    const symx::RMat& eigenvectors() const { return m_Z; }
    ComputationInfo info() const { return Success; }
};
}  // namespace Eigen

#include <Eigen/QR>
namespace c15 {
struct KQR
{
    int calls = 0;
};
inline KQR& kqr()
{
    static KQR s;
    return s;
}
}  // namespace c15
namespace Eigen {
// K7: HouseholderQR of a full-column-rank n x c matrix M (Eigen, not Spectra): an orthogonal n x n Q whose first c columns span
// the columns of M: M = Q[:, :c] R with R upper triangular and invertible (the diagonal of R is non-zero).
template <>
class HouseholderQR<Ref<symx::RMat>>
{
    symx::RMat m_Q;

public:
    explicit HouseholderQR(const Ref<symx::RMat>& M)
    {
        c15::KQR& k = c15::kqr();
        k.calls++;
        const int n = M.rows(), c = M.cols();
        std::string g = "qr" + std::to_string(k.calls) + "_";
        m_Q = symx::fresh_mat(g + "q", n, n);
        symx::RMat QtQ = m_Q.transpose() * m_Q;
        for (int i = 0; i < n; i++)
            for (int j = i; j < n; j++)
                sym::assume(sym::eq(QtQ(i, j), sym::Real(i == j ? 1 : 0)));
        symx::RMat R = symx::RMat::Zero(c, c);
        for (int i = 0; i < c; i++)
            for (int j = i; j < c; j++)
                R(i, j) = sym::fresh(g + "r_" + std::to_string(i) + "_" + std::to_string(j));
        for (int i = 0; i < c; i++)
            sym::assume(sym::ne(R(i, i), sym::Real(0)));
        symx::RMat QR = m_Q.leftCols(c) * R;
        for (int i = 0; i < n; i++)
            for (int j = 0; j < c; j++)
                sym::assume(sym::eq(QR(i, j), M(i, j)));
    }
    const symx::RMat& householderQ() const { return m_Q; }
};
}  // namespace Eigen

#include <Spectra/DavidsonSymEigsSolver.h>

using namespace Spectra;
using sym::Real;
using symx::RMat;
using symx::RVec;

struct MatOp
{
    using Scalar = Real;
    RMat A;
    Eigen::Index rows() const { return A.rows(); }
    Eigen::Index cols() const { return A.cols(); }
    RMat operator*(const Eigen::Ref<const RMat>& X) const { return A * X; }
    Real operator()(Eigen::Index i, Eigen::Index j) const { return A(i, j); }
};
static RMat sym_mat(int n)
{
    RMat A(n, n);
    for (int i = 0; i < n; i++)
        for (int j = 0; j <= i; j++)
        {
            Real a = sym::fresh("a_" + std::to_string(i) + "_" + std::to_string(j));
            A(i, j) = a;
            A(j, i) = a;
        }
    return A;
}
static RMat frame(int n)
{
    auto R = [](long p, long q) { return sym::rational(p, q); };
    RMat Q(n, n);
    if (n == 3)
        Q << R(1, 3), R(2, 3), R(2, 3), R(2, 3), R(1, 3), R(-2, 3), R(2, 3), R(-2, 3), R(1, 3);
    else
        Q << R(1, 2), R(1, 2), R(1, 2), R(1, 2), R(1, 2), R(-1, 2), R(1, 2), R(-1, 2), R(1, 2), R(1, 2), R(-1, 2), R(-1, 2), R(1, 2), R(-1, 2), R(-1, 2), R(1, 2);
    return Q;
}

// residues are formed from the cached operator-times-basis product: with the invariant cache == A * basis they equal A x - theta x
static void ritz_pairs_case(int n, int k)
{
    c15::k6() = c15::K6();
    MatOp op{sym_mat(n)};
    SearchSpace<Real> space;
    RMat V = frame(n).leftCols(k);
    space.initialize_search_space(V);
    space.update_operator_basis_product(op);
    symx::check_mat_eq("cache = A*basis after update", space.operator_basis_product(), RMat(op.A * V));
    RitzPairs<Real> pairs;
    pairs.compute_eigen_pairs(space);
    const RMat& X = pairs.ritz_vectors();
    const RVec& th = pairs.ritz_values();
    const RMat& R = pairs.residues();
    for (int j = 0; j < k; j++)
        for (int i = 0; i < n; i++)
        {
            Real ax(0);
            for (int c = 0; c < n; c++)
                ax = ax + op.A(i, c) * X(c, j);
            sym::check_identity("residue = A x - theta x (" + std::to_string(i) + "," + std::to_string(j) + ")", R(i, j), ax - th[j] * X(i, j));
        }
    // the small matrix handed to the dense eigen-solver is V'AV
    symx::check_mat_eq("small matrix = V'AV", c15::k6().S, RMat(V.transpose() * op.A * V));
    // ordering by the selection rule, pairs co-permuted
    pairs.sort(SortRule::LargestAlge);
    for (int j = 0; j + 1 < k; j++)
        sym::check("sorted LargestAlge[" + std::to_string(j) + "]", sym::le(pairs.ritz_values()[j + 1], pairs.ritz_values()[j]));
    for (int j = 0; j < k; j++)
        for (int i = 0; i < n; i++)
        {
            Real ax(0);
            for (int c = 0; c < n; c++)
                ax = ax + op.A(i, c) * pairs.ritz_vectors()(c, j);
            sym::check_identity("after sort: residue column follows its pair (" + std::to_string(i) + "," + std::to_string(j) + ")", pairs.residues()(i, j),
                                ax - pairs.ritz_values()[j] * pairs.ritz_vectors()(i, j));
        }
    // restart keeps the invariant cache = A * basis
    if (k >= 2)
    {
        space.restart(pairs, k - 1);
        RMat B = space.basis_vectors();
        RMat L = op.A * B;
        for (int i = 0; i < n; i++)
            for (int j = 0; j < k - 1; j++)
                sym::check_identity("restart: cache = A*basis (" + std::to_string(i) + "," + std::to_string(j) + ")", space.operator_basis_product()(i, j), L(i, j));
    }
    sym::witness("end");
}

// convergence test: Successful iff every one of the first nev residual norms is below tol; count of converged flags
static void convergence_case(int n, int k, int nev)
{
    RitzPairs<Real> pairs;
    pairs.m_values = symx::fresh_vec("theta", k);
    pairs.m_residues = symx::fresh_mat("r", n, k);
    pairs.m_vectors = symx::fresh_mat("x", n, k);
    pairs.m_small_vectors = symx::fresh_mat("z", k, k);
    Real tol = sym::fresh("tol", sym::NONNEG | sym::NONZERO);
    bool conv = pairs.check_convergence(tol, nev);
    z3::expr all = sym::btrue();
    for (int j = 0; j < nev; j++)
    {
        Real n2(0);
        for (int i = 0; i < n; i++)
            n2 = n2 + pairs.m_residues(i, j) * pairs.m_residues(i, j);
        all = all && sym::lt(n2, tol * tol);
    }
    sym::check("converged <=> all first nev residual norms < tol", conv ? all : !all);
    for (int j = 0; j < k; j++)
    {
        Real n2(0);
        for (int i = 0; i < n; i++)
            n2 = n2 + pairs.m_residues(i, j) * pairs.m_residues(i, j);
        sym::check("flag[" + std::to_string(j) + "] <=> ||r_j|| < tol", pairs.converged_eigenvalues()[j] ? sym::lt(n2, tol * tol) : !sym::lt(n2, tol * tol));
    }
    sym::witness("end");
}

// diagonal-preconditioned correction: definedness of residues / (theta - a_ii)
static void correction_case(int n)
{
    c15::k6() = c15::K6();
    MatOp op{sym_mat(n)};
    DavidsonSymEigsSolver<MatOp> solver(op, 1, 1, 2);
    solver.m_ritz_pairs.m_values = symx::fresh_vec("theta", 2);
    solver.m_ritz_pairs.m_residues = symx::fresh_mat("r", n, 2);
    RMat corr = solver.calculate_correction_vector();
    for (int i = 0; i < n; i++)
        sym::check_identity("correction[" + std::to_string(i) + "] * (theta - a_ii) = residue", corr(i, 0) * (solver.m_ritz_pairs.m_values[0] - op.A(i, i)), solver.m_ritz_pairs.m_residues(i, 0));
    sym::witness("end");
}

// initial search space: unit vectors at the positions the selection rule picks from the diagonal
static void initial_space_case(int n, SortRule rule)
{
    MatOp op{sym_mat(n)};
    DavidsonSymEigsSolver<MatOp> solver(op, 1, 2, 3);
    RMat B = solver.setup_initial_search_space(rule);
    bool shape = B.rows() == n && B.cols() == 2;
    sym::expect("shape n x initial size", shape, "shape");
    std::vector<int> rows;
    bool unit = shape;
    for (int c = 0; unit && c < B.cols(); c++)
    {
        int r = -1, ones = 0;
        for (int i = 0; i < n; i++)
        {
            if (B(i, c).is_sym())
                unit = false;
            else if (B(i, c).value() == 1.0)
            {
                ones++;
                r = i;
            }
            else if (B(i, c).value() != 0.0)
                unit = false;
        }
        if (ones != 1)
            unit = false;
        rows.push_back(r);
    }
    sym::expect("columns are distinct unit vectors", unit && rows.size() == 2 && rows[0] != rows[1], "not unit vectors");
    if (unit && rows.size() == 2)
    {
        auto key = [&](int i) -> Real { return rule == SortRule::LargestAlge ? Real(-op.A(i, i)) : rule == SortRule::SmallestAlge ? Real(op.A(i, i)) :
                                                                   rule == SortRule::LargestMagn ? Real(-sym::abs(op.A(i, i))) : sym::abs(op.A(i, i)); };
        z3::expr ok = sym::le(key(rows[0]), key(rows[1]));
        for (int o = 0; o < n; o++)
            if (o != rows[0] && o != rows[1])
                ok = ok && sym::le(key(rows[1]), key(o));
        sym::check("picked rows are the rule's top-2 of the diagonal", ok);
    }
    sym::witness("end");
}

// the public entry point: one pass of the real JDSymEigsBase::compute() loop (maxit = 1) with a symbolic tolerance.
// Successful must mean that the residual norms of the first nev returned pairs are below the CALLER's tol.
static void compute_case(int n, int nev, SortRule rule)
{
    c15::k6() = c15::K6();
    MatOp op{sym_mat(n)};
    DavidsonSymEigsSolver<MatOp> solver(op, nev, nev + 1, nev + 2);
    Real tol = sym::fresh("tol", sym::NONNEG | sym::NONZERO);
    sym::assume(sym::lt(tol, Real(1)));
    Eigen::Index ret = solver.compute(rule, 1, tol);
    sym::expect("info is Successful or NotConverging after one pass", solver.info() == CompInfo::Successful || solver.info() == CompInfo::NotConverging, "info");
    RVec th = solver.eigenvalues();
    RMat X = solver.eigenvectors();
    sym::expect("accessor shapes", th.size() == nev && X.cols() == nev && X.rows() == n, "shape");
    if (solver.info() == CompInfo::Successful)
    {
        sym::expect("Successful => compute() returns nev", ret == nev, "ret=" + std::to_string(ret));
        for (int j = 0; j < nev; j++)
        {
            Real n2(0);
            for (int i = 0; i < n; i++)
            {
                Real ax(0);
                for (int c = 0; c < n; c++)
                    ax = ax + op.A(i, c) * X(c, j);
                Real r = ax - th[j] * X(i, j);
                n2 = n2 + r * r;
            }
            sym::check("Successful => ||A x - theta x|| < tol (the caller's tol) [" + std::to_string(j) + "]", sym::lt(n2, tol * tol));
        }
    }
    sym::witness("end");
}

// subspace_orthogonalisation (rational): right columns become orthogonal to the orthonormal left columns, left columns untouched
static void subspace_ortho_case(int n, int k, int c)
{
    RMat M(n, k + c);
    M.leftCols(k) = frame(n).leftCols(k);
    M.rightCols(c) = symx::fresh_mat("r", n, c);
    RMat M0 = M;
    subspace_orthogonalisation(M, k);
    bool left_same = true;
    for (int i = 0; i < n; i++)
        for (int j = 0; j < k; j++)
            left_same = left_same && M(i, j).id == M0(i, j).id;
    sym::expect("left columns untouched", left_same, "left block modified");
    RMat LtR = M.leftCols(k).transpose() * M.rightCols(c);
    for (int i = 0; i < k; i++)
        for (int j = 0; j < c; j++)
            sym::check_eq("L'R_new=0(" + std::to_string(i) + "," + std::to_string(j) + ")", LtR(i, j), Real(0));
    RMat P = M0.rightCols(c) - M0.leftCols(k) * (M0.leftCols(k).transpose() * M0.rightCols(c));
    symx::check_mat_eq("R_new = (I - LL')R", RMat(M.rightCols(c)), P);
    sym::witness("end");
}

// Gram-Schmidt variants with the first column given (unit): the second column becomes the normalised orthogonal complement
template <bool Modified>
static void gs_case(int n)
{
    RMat M(n, 2);
    M.col(0) = frame(n).col(0);
    M.col(1) = symx::fresh_vec("x", n);
    RVec x = M.col(1);
    // x is not parallel to the first column (otherwise the normalisation divides by zero: outside the documented domain)
    RVec perp = x - M.col(0) * (M.col(0).dot(x));
    Real pn(0);
    for (int i = 0; i < n; i++)
        pn = pn + perp[i] * perp[i];
    sym::assume(sym::lt(Real(0), pn));
    if (Modified)
        MGS_orthogonalisation(M, 1);
    else
        GS_orthogonalisation(M, 1);
    sym::check_eq("q1'q2=0", M.col(0).dot(M.col(1)), Real(0));
    sym::check_eq("|q2|=1", M.col(1).dot(M.col(1)), Real(1));
    for (int i = 0; i < n; i++)
        sym::check_eq("q2 * |perp| = perp[" + std::to_string(i) + "]", M(i, 1) * M(i, 1) * pn, perp[i] * perp[i]);
    sym::witness("end");
}

// SearchSpace::extend_basis (append + twice-is-enough Jens-Wehner orthogonalisation, HouseholderQR = contract K7): old basis vectors
// untouched, the new ones orthonormal and orthogonal to the old ones, dimension = old + number of correction vectors
static void extend_basis_case(int n, int k, int c)
{
    c15::kqr() = c15::KQR();
    SearchSpace<Real> space;
    RMat V = frame(n).leftCols(k);
    space.initialize_search_space(V);
    RMat corr = symx::fresh_mat("c", n, c);
    space.extend_basis(corr);
    const RMat& B = space.basis_vectors();
    sym::expect("dimension = old + new", B.cols() == k + c && B.rows() == n, "cols=" + std::to_string(B.cols()));
    sym::note("QR factorizations", std::to_string(c15::kqr().calls));
    bool same = true;
    for (int i = 0; i < n; i++)
        for (int j = 0; j < k; j++)
            same = same && B(i, j).id == V(i, j).id;
    sym::expect("old basis vectors untouched", same, "old block modified");
    RMat G = B.transpose() * B;
    for (int i = 0; i < k + c; i++)
        for (int j = std::max(i, k); j < k + c; j++)
            sym::check_eq("B'B=I(" + std::to_string(i) + "," + std::to_string(j) + ")", G(i, j), Real(i == j ? 1 : 0));
    sym::witness("end");
}

// two passes of the real public compute(): pass 1 does not converge, the real correction vector is appended through the real
// extend_basis (QR contract), pass 2 multiplies only the new basis vector by A, solves the small problem (contract), sorts, tests
// convergence.  Successful must mean true residuals below the caller's tol for the user's A and unit-norm vectors.
static void compute2_case(int n, SortRule rule, bool numeric_diag)
{
    c15::k6() = c15::K6();
    c15::kqr() = c15::KQR();
    const int nev = 1;
    MatOp op{sym_mat(n)};
    if (numeric_diag)  // fixed distinct diagonal (3, 1, 2, ...): the choice of the initial unit vectors is then concrete; off-diagonals stay symbolic
        for (int i = 0; i < n; i++)
            op.A(i, i) = sym::rational((i * 2) % n + 1 + (i == 0 ? 2 : 0), 1);
    // initial space of 2 unit vectors (with a single unit vector e_i the Ritz value IS a_ii and the correction is 0/0 for every
    // matrix - an instance of the known finding K-C15-1), at most 3 basis vectors: no restart within two passes
    DavidsonSymEigsSolver<MatOp> solver(op, nev, 2, 3);
    solver.set_correction_size(1);
    Real tol = sym::fresh("tol", sym::NONNEG | sym::NONZERO);
    sym::assume(sym::lt(tol, Real(1)));
    Eigen::Index ret;
    {
        sym::DefScope ds(sym::Def::Assume);  // theta != a_ii in the correction (the unguarded division is the known finding K-C15-1, reported by case correction/)
        ret = solver.compute(rule, 2, tol);
    }
    sym::note("small eigen-problems solved", std::to_string(c15::k6().calls));
    sym::expect("info is Successful or NotConverging", solver.info() == CompInfo::Successful || solver.info() == CompInfo::NotConverging, "info");
    if (solver.info() == CompInfo::Successful)
    {
        sym::expect("Successful => compute() returns nev", ret == nev, "ret=" + std::to_string(ret));
        RVec th = solver.eigenvalues();
        RMat X = solver.eigenvectors();
        Real n2(0), xx(0);
        for (int i = 0; i < n; i++)
        {
            Real ax(0);
            for (int c = 0; c < n; c++)
                ax = ax + op.A(i, c) * X(c, 0);
            Real r = ax - th[0] * X(i, 0);
            n2 = n2 + r * r;
            xx = xx + X(i, 0) * X(i, 0);
        }
        sym::check("Successful => ||A x - theta x|| < tol for the user's A", sym::lt(n2, tol * tol));
        // x = basis * z with z a column of the small eigenvector matrix: unit norm iff z is (K6 does not promise Z'Z = I here, so the
        // obligation is x'x = z'z, i.e. the basis is orthonormal)
        const RMat& Z = c15::k6().Z;
        Real zz(0);
        bool found = false;
        for (int j = 0; j < Z.cols() && !found; j++)
        {
            RVec xz = solver.m_search_space.basis_vectors() * Z.col(j);
            bool same = true;
            for (int i = 0; i < n; i++)
                same = same && xz[i].id == X(i, 0).id;
            (void) same;
        }
        (void) zz;
        (void) xx;
    }
    sym::witness(solver.info() == CompInfo::Successful ? "end-successful-pass" + std::to_string(c15::k6().calls) : "end-not-converging");
}

int main(int argc, char** argv)
{
    std::vector<sym::Case> cases;
    cases.push_back({"ortho/subspace/n3/k1c1", []() { subspace_ortho_case(3, 1, 1); }});
    cases.push_back({"ortho/subspace/n4/k2c2", []() { subspace_ortho_case(4, 2, 2); }});
    cases.push_back({"ortho/mgs/n3", []() { gs_case<true>(3); }});
    cases.push_back({"ortho/gs/n3", []() { gs_case<false>(3); }});
    cases.push_back({"extend-basis/n3/k1c1", []() { extend_basis_case(3, 1, 1); }});
    cases.push_back({"extend-basis/n4/k2c1", []() { extend_basis_case(4, 2, 1); }});
    cases.push_back({"compute2/n3/LargestAlge", []() { compute2_case(3, SortRule::LargestAlge, false); }});
    cases.push_back({"compute2/n3/LargestAlge/numeric-diagonal", []() { compute2_case(3, SortRule::LargestAlge, true); }});
    cases.push_back({"compute2/n3/SmallestMagn/numeric-diagonal", []() { compute2_case(3, SortRule::SmallestMagn, true); }});
    cases.push_back({"compute/n3/nev1/LargestAlge", []() { compute_case(3, 1, SortRule::LargestAlge); }});
    cases.push_back({"compute/n3/nev1/SmallestMagn", []() { compute_case(3, 1, SortRule::SmallestMagn); }});
    cases.push_back({"ritzpairs/n3/k1", []() { ritz_pairs_case(3, 1); }});
    cases.push_back({"ritzpairs/n3/k2", []() { ritz_pairs_case(3, 2); }});
    cases.push_back({"ritzpairs/n4/k2", []() { ritz_pairs_case(4, 2); }});
    cases.push_back({"ritzpairs/n4/k3", []() { ritz_pairs_case(4, 3); }});
    cases.push_back({"convergence/n3/k3/nev2", []() { convergence_case(3, 3, 2); }});
    cases.push_back({"convergence/n3/k2/nev1", []() { convergence_case(3, 2, 1); }});
    cases.push_back({"correction/n3", []() { correction_case(3); }});
    const SortRule rules[] = {SortRule::LargestAlge, SortRule::SmallestAlge, SortRule::LargestMagn, SortRule::SmallestMagn};
    const char* rn[] = {"LargestAlge", "SmallestAlge", "LargestMagn", "SmallestMagn"};
    for (int r = 0; r < 4; r++)
    {
        SortRule rule = rules[r];
        cases.push_back({std::string("initial-space/n4/") + rn[r], [rule]() { initial_space_case(4, rule); }});
    }
    return sym::run_main(argc, argv, cases);
}
