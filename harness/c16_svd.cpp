// C16: partial SVD - operators A'A / AA' (real code, symbolic matrices, dense and sparse), and the accessor algebra of
// PartialSVDSolver (singular_values, matrix_U, matrix_V) from an arbitrary converged eigen-state of the nested solver.
#include "symx_eigen.h"
#include <Eigen/Sparse>
#include <Spectra/contrib/PartialSVDSolver.h>

using namespace Spectra;
using sym::Real;
using symx::RMat;
using symx::RVec;

template <bool Sparse, int Order>
static void op_case(int m, int n)
{
    using Dense = Eigen::Matrix<Real, Eigen::Dynamic, Eigen::Dynamic, Order>;
    using Sp = Eigen::SparseMatrix<Real, Order>;
    RMat A = symx::fresh_mat("A", m, n);
    const int d = std::min(m, n);
    RVec x = symx::fresh_vec("x", d), y(d);
    auto run = [&](auto& M) {
        using MT = typename std::decay<decltype(M)>::type;
        if (m > n)
        {
            SVDTallMatOp<Real, MT> op(M);
            sym::expect("dimension = min(m,n)", op.rows() == d && op.cols() == d, "rows/cols");
            op.perform_op(x.data(), y.data());
        }
        else
        {
            SVDWideMatOp<Real, MT> op(M);
            sym::expect("dimension = min(m,n)", op.rows() == d && op.cols() == d, "rows/cols");
            op.perform_op(x.data(), y.data());
        }
    };
    if (Sparse)
    {
        Sp As = Dense(A).sparseView();
        // sparseView drops structural zeros only; all entries are symbols here
        run(As);
    }
    else
    {
        Dense Ad = A;
        run(Ad);
    }
    RVec ref = (m > n) ? RVec(A.transpose() * (A * x)) : RVec(A * (A.transpose() * x));
    symx::check_mat_eq(m > n ? "y=A'Ax" : "y=AA'x", y, ref);
    sym::witness("end");
}

// accessor algebra from an arbitrary eigen-state: theta_i > 0 eigenvalues of the operator (descending), W = eigenvectors
static void accessor_case(int m, int n, int ncomp, int nconv, bool any_theta = false)
{
    RMat A = symx::fresh_mat("A", m, n);
    const int d = std::min(m, n), ncv = ncomp + 1;
    PartialSVDSolver<RMat> svd(A, ncomp, ncv);
    {
        // the operator the solver iterates with must be the one the accessors assume: A'A for tall, AA' for wide AND square input
        RVec x = symx::fresh_vec("x", d), y(d);
        svd.m_op->perform_op(x.data(), y.data());
        RVec ref = (m > n) ? RVec(A.transpose() * (A * x)) : RVec(A * (A.transpose() * x));
        symx::check_mat_eq(m > n ? "solver operator = A'A (tall)" : "solver operator = AA' (wide / square)", y, ref);
    }
    auto& e = *svd.m_eigs;
    RVec v0 = RVec::Ones(d);
    e.m_ritz_val.resize(ncv);
    e.m_ritz_vec = symx::fresh_mat("y", ncv, ncomp);
    e.m_ritz_conv.resize(ncomp);
    for (int i = 0; i < ncv; i++)
        e.m_ritz_val[i] = any_theta ? sym::fresh("theta_" + std::to_string(i))  // rank-deficient input: zero, or slightly negative through rounding
                                    : sym::fresh("theta_" + std::to_string(i), sym::NONNEG | sym::NONZERO);  // positive: A has full rank on the converged part
    for (int i = 0; i < ncomp; i++)
        e.m_ritz_conv[i] = (i < nconv);
    e.m_fac.m_fac_V = symx::fresh_mat("V", d, ncv);
    svd.m_nconv = nconv;
    svd.m_evecs.resize(0, 0);
    if (any_theta)
    {
        // arbitrary (also exactly rank-deficient) input: whatever eigenvalue the nested solver hands back - zero, or a tiny negative
        // number - singular values and vectors must be finite and the values non-negative: no root of a negative number and no
        // division by zero may be executed (definedness events are violations), and where theta > 0 the factor identity holds
        RVec s = svd.singular_values();
        for (int i = 0; i < s.size(); i++)
        {
            sym::check("s>=0[" + std::to_string(i) + "]", sym::le(Real(0), s[i]));
            sym::check("theta>0 => s^2=theta[" + std::to_string(i) + "]", sym::le(e.m_ritz_val[i], Real(0)) || sym::eq(s[i] * s[i], e.m_ritz_val[i]));
        }
        RMat U = svd.matrix_U(ncomp), V = svd.matrix_V(ncomp);
        sym::expect("shapes", U.cols() == nconv && V.cols() == nconv && U.rows() == m && V.rows() == n, "shape");
        RMat W = e.eigenvectors();
        for (int j = 0; j < nconv; j++)
        {
            RVec side = (m > n) ? RVec(A * W.col(j)) : RVec(A.transpose() * W.col(j));
            const RMat& X = (m > n) ? U : V;
            for (int i = 0; i < side.size(); i++)
                sym::check("theta>0 => other-side vector * s = A w[" + std::to_string(j) + "](" + std::to_string(i) + ")",
                           sym::le(e.m_ritz_val[j], Real(0)) || sym::eq(X(i, j) * s[j], side[i]));
        }
        sym::witness("end");
        return;
    }
    RVec s = svd.singular_values();
    sym::expect("singular_values().size() == nconv", s.size() == nconv, "size " + std::to_string(s.size()));
    for (int i = 0; i < s.size(); i++)
    {
        sym::check("s>=0[" + std::to_string(i) + "]", sym::le(Real(0), s[i]));
        sym::check_identity("s^2=theta[" + std::to_string(i) + "]", s[i] * s[i], e.m_ritz_val[i]);
    }
    RMat W = e.eigenvectors();  // eigenvectors of A'A (tall) or AA' (wide/square)
    for (int k = 0; k <= ncomp + 1; k++)
    {
        RMat U = svd.matrix_U(k), V = svd.matrix_V(k);
        const int want = std::min(k, nconv);
        sym::expect("matrix_U(" + std::to_string(k) + ").cols() == min(k,nconv)", U.cols() == want && U.rows() == m, "shape");
        sym::expect("matrix_V(" + std::to_string(k) + ").cols() == min(k,nconv)", V.cols() == want && V.rows() == n, "shape");
        if (k != ncomp)
            continue;
        for (int j = 0; j < want; j++)
        {
            std::string js = "[" + std::to_string(j) + "]";
            if (m > n)
            {
                // V = W, U = A V S^{-1}
                for (int i = 0; i < n; i++)
                    sym::check_identity("V=W" + js + "(" + std::to_string(i) + ")", V(i, j), W(i, j));
                RVec av = A * V.col(j);
                for (int i = 0; i < m; i++)
                    sym::check_identity("U s = A v" + js + "(" + std::to_string(i) + ")", U(i, j) * s[j], av[i]);
            }
            else
            {
                for (int i = 0; i < m; i++)
                    sym::check_identity("U=W" + js + "(" + std::to_string(i) + ")", U(i, j), W(i, j));
                RVec atu = A.transpose() * U.col(j);
                for (int i = 0; i < n; i++)
                    sym::check_identity("V s = A'u" + js + "(" + std::to_string(i) + ")", V(i, j) * s[j], atu[i]);
            }
        }
    }
    sym::witness("end");
}

int main(int argc, char** argv)
{
    std::vector<sym::Case> cases;
    const int shapes[][2] = {{3, 2}, {2, 3}, {3, 3}, {4, 2}, {2, 4}};
    for (auto& sh : shapes)
    {
        int m = sh[0], n = sh[1];
        std::string t = "/" + std::to_string(m) + "x" + std::to_string(n);
        cases.push_back({"op/dense/col" + t, [m, n]() { op_case<false, Eigen::ColMajor>(m, n); }});
        cases.push_back({"op/dense/row" + t, [m, n]() { op_case<false, Eigen::RowMajor>(m, n); }});
        cases.push_back({"op/sparse/col" + t, [m, n]() { op_case<true, Eigen::ColMajor>(m, n); }});
        cases.push_back({"op/sparse/row" + t, [m, n]() { op_case<true, Eigen::RowMajor>(m, n); }});
    }
    const int acc[][2] = {{4, 3}, {3, 4}, {3, 3}};
    for (auto& sh : acc)
        for (int nconv = 0; nconv <= 2; nconv++)
        {
            int m = sh[0], n = sh[1];
            cases.push_back({"accessors/" + std::to_string(m) + "x" + std::to_string(n) + "/nconv" + std::to_string(nconv), [m, n, nconv]() { accessor_case(m, n, 2, nconv); }});
        }
    for (auto& sh : acc)
        for (int nconv = 1; nconv <= 2; nconv++)
        {
            int m = sh[0], n = sh[1];
            cases.push_back({"accessors-rank-deficient/" + std::to_string(m) + "x" + std::to_string(n) + "/nconv" + std::to_string(nconv), [m, n, nconv]() { accessor_case(m, n, 2, nconv, true); }});
        }
    return sym::run_main(argc, argv, cases);
}
