// C08: DoubleShiftQR::compute_reflector, real code, with its three leaf kernels (stable_norm3, stable_scaling(x1,x2,x3),
// Eigen::numext::hypot) replaced by the contracts they are checked against in c08_rot.cpp ("one radical per query").
#include "symx_eigen.h"
#include <Spectra/LinAlg/DoubleShiftQR.h>

using sym::Real;
using z3::expr;

namespace Spectra {
template <>
Real DoubleShiftQR<Real>::stable_norm3(Real x1, Real x2, Real x3)
{
    return sym::sqrt(x1 * x1 + x2 * x2 + x3 * x3);
}
template <>
void DoubleShiftQR<Real>::stable_scaling(Real& x1, Real& x2, Real& x3)
{
    // documented precondition: |x1| >= |x2|, |x3|, x1 != 0
    sym::check("stable_scaling pre: |x1|>=|x2|", sym::le(sym::abs(x2), sym::abs(x1)));
    sym::check("stable_scaling pre: |x1|>=|x3|", sym::le(sym::abs(x3), sym::abs(x1)));
    sym::check("stable_scaling pre: x1!=0", sym::ne(x1, Real(0)));
    sym::DefScope d(sym::Def::Assume);
    Real w = sym::sqrt(x1 * x1 + x2 * x2 + x3 * x3);
    x1 = x1 / w;
    x2 = x2 / w;
    x3 = x3 / w;
}
}  // namespace Spectra
namespace Eigen {
namespace internal {
template <>
struct hypot_impl<sym::Real>
{
    typedef sym::Real RealScalar;
    static inline RealScalar run(const sym::Real& x, const sym::Real& y) { return sym::sqrt(x * x + y * y); }
};
}  // namespace internal
}  // namespace Eigen

// inputs are exactly zero or clearly above the underflow thresholds (the near_0 regime is outside the claim)
static Real input(const std::string& nm, int kind)
{
    if (kind == 0)
        return Real(0);
    Real x = sym::fresh(nm);
    sym::assume(sym::le(Real(1e-200), sym::abs(x)));
    return x;
}

static void reflector_case(int k1, int k2, int k3)
{
    Real x1 = input("x1", k1), x2 = input("x2", k2), x3 = input("x3", k3);
    Spectra::DoubleShiftQR<Real> qr(4);
    qr.m_ref_u.resize(3, 4);
    qr.m_ref_nr.resize(4);
    for (int i = 0; i < 3; i++)
        for (int j = 0; j < 4; j++)
            qr.m_ref_u(i, j) = Real(777);
    for (int j = 0; j < 4; j++)
        qr.m_ref_nr[j] = 9;
    qr.compute_reflector(x1, x2, x3, 1);
    int nr = qr.m_ref_nr[1];
    Real zero(0), one(1);
    sym::note("nr", std::to_string(nr));
    int want = (k2 == 0 && k3 == 0) ? 1 : (k3 == 0 ? 2 : 3);
    sym::expect("nr as documented", nr == want, "nr=" + std::to_string(nr) + " expected " + std::to_string(want));
    sym::expect("other slots untouched", qr.m_ref_nr[0] == 9 && qr.m_ref_nr[2] == 9 && !qr.m_ref_u(0, 0).is_sym() && qr.m_ref_u(0, 0).value() == 777 &&
                    !qr.m_ref_u(0, 2).is_sym() && qr.m_ref_u(0, 2).value() == 777, "neighbouring reflector slot written");
    if (nr == 1)
    {
        sym::witness("end");
        return;
    }
    Real u0 = qr.m_ref_u(0, 1), u1 = qr.m_ref_u(1, 1), u2 = qr.m_ref_u(2, 1);
    if (nr == 2)
        sym::check_eq("u2=0 when nr=2", u2, zero);
    Real nn = u0 * u0 + u1 * u1 + u2 * u2;
    sym::check_eq("unit", nn, one);
    Real ux = u0 * x1 + u1 * x2 + u2 * x3;
    Real p1 = x1 - Real(2) * u0 * ux, p2 = x2 - Real(2) * u1 * ux, p3 = x3 - Real(2) * u2 * ux;
    sym::check_eq("(Px)_2=0", p2, zero);
    sym::check_eq("(Px)_3=0", p3, zero);
    sym::check_eq("(Px)_1^2=|x|^2", p1 * p1, x1 * x1 + x2 * x2 + x3 * x3);
    // rho = -sign(x1): the reflected first component has the sign opposite to x1 (no cancellation)
    sym::check("(Px)_1 sign", sym::le(p1 * x1, zero));
    sym::witness("end");
}

int main(int argc, char** argv)
{
    std::vector<sym::Case> cases;
    for (int k1 = 0; k1 < 2; k1++)
        for (int k2 = 0; k2 < 2; k2++)
            for (int k3 = 0; k3 < 2; k3++)
                cases.push_back({"reflector/x1" + std::string(k1 ? "s" : "0") + "/x2" + (k2 ? "s" : "0") + "/x3" + (k3 ? "s" : "0"),
                                 [k1, k2, k3]() { reflector_case(k1, k2, k3); }});
    return sym::run_main(argc, argv, cases);
}
