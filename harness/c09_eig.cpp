// C09: small dense eigen-decompositions, real code at n = 2 (where the iterations terminate in closed form) and the zero-matrix exits.
#include "symx_eigen.h"
#include <Spectra/LinAlg/TridiagEigen.h>
#include <Spectra/LinAlg/UpperHessenbergSchur.h>
#include <Spectra/LinAlg/UpperHessenbergEigen.h>

using namespace Spectra;
using sym::Real;
using symx::CMat;
using symx::CReal;
using symx::CVec;
using symx::RMat;
using symx::RVec;

static bool same_term(const Real& a, const Real& b)
{
    if (a.is_sym() != b.is_sym())
        return false;
    if (!a.is_sym())
        return a.value() == b.value();
    return a.id == b.id || Z3_get_ast_id(sym::ctx(), a.term()) == Z3_get_ast_id(sym::ctx(), b.term());
}
// Domain of the exact claims: the sub-diagonal is clearly not negligible and the matrix is not in the underflow regime.
// (The deflation / scaling thresholds make the results exact only to eps level by design; rounding-level clauses are outside.)
static void assume_unreduced(const Real& sub, const Real& d0, const Real& d1)
{
    sym::assume(sym::lt(Real(1e-6) * (sym::abs(d0) + sym::abs(d1)) + Real(1e-100), sym::abs(sub)));
}

static void schur_case(int n, const std::string& kind)
{
    sym::set_max_decisions(400);
    RMat H = RMat::Zero(n, n);
    for (int i = 0; i < n; i++)
        for (int j = 0; j < n; j++)
            if (i <= j + 1)
                H(i, j) = sym::fresh("h_" + std::to_string(i) + "_" + std::to_string(j));
    if (kind == "defective")
    {
        // 2x2 block with exactly zero discriminant and a non-zero sub-diagonal: ((a-d)/2)^2 + b c = 0
        Real p = (H(0, 0) - H(1, 1)) * Real(0.5);
        sym::assume(sym::eq(p * p + H(1, 0) * H(0, 1), Real(0)));
        sym::assume(sym::ne(H(1, 0), Real(0)));
    }
    assume_unreduced(H(1, 0), H(0, 0), H(1, 1));
    for (int i = 0; i < n; i++)
        for (int j = 0; j < n; j++)
            if (H(i, j).is_sym())
                sym::assume(sym::le(sym::abs(H(i, j)), Real(1000) * sym::abs(H(1, 0))));  // no grading beyond 3 orders of magnitude
    UpperHessenbergSchur<Real> schur(H);
    const RMat& T = schur.matrix_T();
    const RMat& U = schur.matrix_U();
    symx::check_mat_eq("U'U=I", RMat(U.transpose() * U), RMat::Identity(n, n));
    {
        RMat L = U * T * U.transpose();
        for (int i = 0; i < n; i++)
            for (int j = 0; j < n; j++)
                sym::check_identity("UTU'=H(" + std::to_string(i) + "," + std::to_string(j) + ")", L(i, j), H(i, j));
    }
    // quasi-triangular: a non-zero T(1,0) is only allowed for a complex pair (negative discriminant)
    if (n == 2 && (T(1, 0).is_sym() || T(1, 0).value() != 0.0))
    {
        Real p = (H(0, 0) - H(1, 1)) * Real(0.5);
        Real q = p * p + H(1, 0) * H(0, 1);
        sym::check("remaining 2x2 block has complex eigenvalues (discriminant < 0) or is negligible",
                   sym::lt(q, Real(0)) || sym::eq(T(1, 0), Real(0)));
    }
    sym::witness("end");
}

static void hesseig_case(int n, const std::string& kind)
{
    RMat H = RMat::Zero(n, n);
    for (int i = 0; i < n; i++)
        for (int j = 0; j < n; j++)
            if (i <= j + 1)
                H(i, j) = sym::fresh("h_" + std::to_string(i) + "_" + std::to_string(j));
    if (kind == "defective")
    {
        Real p = (H(0, 0) - H(1, 1)) * Real(0.5);
        sym::assume(sym::eq(p * p + H(1, 0) * H(0, 1), Real(0)));
        sym::assume(sym::ne(H(1, 0), Real(0)));
    }
    if (kind == "complex")
    {
        Real p = (H(0, 0) - H(1, 1)) * Real(0.5);
        sym::assume(sym::lt(p * p + H(1, 0) * H(0, 1), Real(0)));
    }
    if (kind == "real")
    {
        Real p = (H(0, 0) - H(1, 1)) * Real(0.5);
        sym::assume(sym::lt(Real(0), p * p + H(1, 0) * H(0, 1)));
    }
    assume_unreduced(H(1, 0), H(0, 0), H(1, 1));
    for (int i = 0; i < n; i++)
        for (int j = 0; j < n; j++)
            if (H(i, j).is_sym())
                sym::assume(sym::le(sym::abs(H(i, j)), Real(1000) * sym::abs(H(1, 0))));
    UpperHessenbergEigen<Real> eig(H);
    const CVec& ev = eig.eigenvalues();
    CMat X = eig.eigenvectors();
    for (int j = 0; j < n; j++)
    {
        std::string js = "[" + std::to_string(j) + "]";
        bool real_ev = !ev[j].imag().is_sym() && ev[j].imag().value() == 0.0;
        if (!real_ev)
        {
            // complex eigenvalues come as adjacent exact conjugates, positive imaginary part first
            bool first = (j + 1 < n) && same_term(ev[j + 1].real(), ev[j].real()) && !(j > 0 && same_term(ev[j - 1].real(), ev[j].real()));
            if (first)
            {
                sym::check("pair" + js + ": positive imaginary part first", sym::lt(Real(0), ev[j].imag()));
                sym::check_identity("pair" + js + ": exact conjugates", ev[j + 1].imag(), -ev[j].imag());
                sym::expect("pair" + js + ": conjugate has the same real part term", same_term(ev[j + 1].real(), ev[j].real()), "real parts differ");
            }
            else
                sym::expect("pair" + js + ": second of a pair", j > 0 && same_term(ev[j - 1].real(), ev[j].real()), "complex eigenvalue without adjacent conjugate");
        }
        // H x = lambda x (complex arithmetic), ||x|| = 1
        Real nrm(0);
        for (int i = 0; i < n; i++)
        {
            Real re(0), im(0);
            for (int k = 0; k < n; k++)
            {
                re = re + H(i, k) * X(k, j).real();
                im = im + H(i, k) * X(k, j).imag();
            }
            Real lr = ev[j].real() * X(i, j).real() - ev[j].imag() * X(i, j).imag();
            Real li = ev[j].real() * X(i, j).imag() + ev[j].imag() * X(i, j).real();
            sym::check_identity("Re(Hx-lx)" + js + "(" + std::to_string(i) + ")", re, lr);
            sym::check_identity("Im(Hx-lx)" + js + "(" + std::to_string(i) + ")", im, li);
            nrm = nrm + X(i, j).real() * X(i, j).real() + X(i, j).imag() * X(i, j).imag();
        }
        sym::check_identity("unit norm" + js, nrm, Real(1));
    }
    sym::witness("end");
}

static void trideig_case(int n)
{
    sym::set_max_decisions(12);
    RMat T = RMat::Zero(n, n);
    RVec d = symx::fresh_vec("d", n), e = symx::fresh_vec("e", n - 1);
    for (int i = 0; i < n; i++)
        T(i, i) = d[i];
    for (int i = 0; i + 1 < n; i++)
    {
        T(i + 1, i) = e[i];
        T(i, i + 1) = sym::fresh("junk_" + std::to_string(i));  // documented: only the lower part is read
    }
    for (int i = 0; i + 1 < n; i++)
        assume_unreduced(e[i], d[i], d[i + 1]);
    TridiagEigen<Real> eig(T);
    const RVec& ev = eig.eigenvalues();
    const RMat& Z = eig.eigenvectors();
    RMat Ts = RMat::Zero(n, n);
    for (int i = 0; i < n; i++)
        Ts(i, i) = d[i];
    for (int i = 0; i + 1 < n; i++)
        Ts(i + 1, i) = Ts(i, i + 1) = e[i];
    bool clean = true;
    for (int i = 0; i < n; i++)
        if (sym::mentions(ev[i], "junk_"))
            clean = false;
    sym::expect("upper triangle not read", clean, "eigenvalues depend on the upper triangle");
    bool identityZ = true;
    for (int i = 0; i < n; i++)
        for (int j = 0; j < n; j++)
            if (Z(i, j).is_sym() || Z(i, j).value() != (i == j ? 1.0 : 0.0))
                identityZ = false;
    symx::check_mat_eq("Z'Z=I", RMat(Z.transpose() * Z), RMat::Identity(n, n));
    if (identityZ)
    {
        // the sub-diagonal was deflated as negligible (or is zero): eigenvalues are the diagonal (eps-level by design)
        for (int i = 0; i < n; i++)
            sym::check_identity("deflated: eigenvalue = diagonal[" + std::to_string(i) + "]", ev[i], d[i]);
        sym::witness("end-deflated");
        return;
    }
    RMat L = Ts * Z;
    for (int i = 0; i < n; i++)
        for (int j = 0; j < n; j++)
            sym::check_identity("TZ=ZD(" + std::to_string(i) + "," + std::to_string(j) + ")", L(i, j), Z(i, j) * ev[j]);
    sym::witness("end");
}

static void zero_matrix_case(int n)
{
    RMat Zr = RMat::Zero(n, n);
    TridiagEigen<Real> te(Zr);
    bool ok = true;
    for (int i = 0; i < n; i++)
    {
        if (te.eigenvalues()[i].is_sym() || te.eigenvalues()[i].value() != 0.0)
            ok = false;
        for (int j = 0; j < n; j++)
            if (te.eigenvectors()(i, j).is_sym() || te.eigenvectors()(i, j).value() != (i == j ? 1.0 : 0.0))
                ok = false;
    }
    sym::expect("TridiagEigen(0): eigenvalues 0, identity vectors", ok, "wrong result on the zero matrix");
    UpperHessenbergEigen<Real> he(Zr);
    CMat X = he.eigenvectors();
    bool ok2 = true;
    for (int i = 0; i < n; i++)
    {
        const CReal& l = he.eigenvalues()[i];
        if (l.real().is_sym() || l.imag().is_sym() || l.real().value() != 0.0 || l.imag().value() != 0.0)
            ok2 = false;
        Real nrm(0);
        for (int k = 0; k < n; k++)
            nrm = nrm + X(k, i).real() * X(k, i).real() + X(k, i).imag() * X(k, i).imag();
        if (nrm.is_sym() || std::fabs(nrm.value() - 1.0) > 1e-15)
            ok2 = false;
    }
    sym::expect("UpperHessenbergEigen(0): eigenvalues 0, unit vectors, no NaN", ok2, "wrong / non-finite result on the zero matrix");
    UpperHessenbergSchur<Real> hs(Zr);
    bool ok3 = true;
    for (int i = 0; i < n; i++)
        for (int j = 0; j < n; j++)
            if (hs.matrix_T()(i, j).is_sym() || hs.matrix_T()(i, j).value() != 0.0 || hs.matrix_U()(i, j).is_sym() || hs.matrix_U()(i, j).value() != (i == j ? 1.0 : 0.0))
                ok3 = false;
    sym::expect("UpperHessenbergSchur(0): T = 0, U = I", ok3, "wrong result on the zero matrix");
    sym::witness("end");
}

int main(int argc, char** argv)
{
    std::vector<sym::Case> cases;
    cases.push_back({"schur/n2/general", []() { schur_case(2, "general"); }});
    cases.push_back({"schur/n2/defective", []() { schur_case(2, "defective"); }});
    cases.push_back({"hesseig/n2/real", []() { hesseig_case(2, "real"); }});
    cases.push_back({"hesseig/n2/complex", []() { hesseig_case(2, "complex"); }});
    cases.push_back({"hesseig/n2/defective", []() { hesseig_case(2, "defective"); }});
    cases.push_back({"trideig/n2", []() { trideig_case(2); }});
    for (int n = 2; n <= 4; n++)
        cases.push_back({"zero-matrix/n" + std::to_string(n), [n]() { zero_matrix_case(n); }});
    return sym::run_main(argc, argv, cases);
}
