// Mode A: the real symmetric solver glue (HermEigsBase::init/compute/restart/num_converged/nev_adjusted/retrieve_ritzpair/
// sort_ritzpair/eigenvalues/eigenvectors, SymEigsShiftSolver::sort_ritzpair, argsort, Lanczos::compress_H) on top of the
// specification stubs of stubs_sym.h.  Serves C01(d), C04, C05, C12 (rule validation), C13 (restart index safety).
#include "stubs_sym.h"

using namespace Spectra;
using stubs::AbstractOp;
using stubs::st;
using sym::Real;
using symx::RMat;
using symx::RVec;
using z3::expr;

static const char* rule_name(SortRule r)
{
    switch (r)
    {
        case SortRule::LargestMagn: return "LargestMagn";
        case SortRule::LargestReal: return "LargestReal";
        case SortRule::LargestImag: return "LargestImag";
        case SortRule::LargestAlge: return "LargestAlge";
        case SortRule::SmallestMagn: return "SmallestMagn";
        case SortRule::SmallestReal: return "SmallestReal";
        case SortRule::SmallestImag: return "SmallestImag";
        case SortRule::SmallestAlge: return "SmallestAlge";
        case SortRule::BothEnds: return "BothEnds";
    }
    return "?";
}
static const SortRule all_rules[] = {SortRule::LargestMagn, SortRule::LargestReal, SortRule::LargestImag,
                                     SortRule::LargestAlge, SortRule::SmallestMagn, SortRule::SmallestReal,
                                     SortRule::SmallestImag, SortRule::SmallestAlge, SortRule::BothEnds};
static bool sym_selection_ok(SortRule r)
{
    return r == SortRule::LargestMagn || r == SortRule::LargestAlge || r == SortRule::SmallestMagn || r == SortRule::SmallestAlge ||
        r == SortRule::BothEnds;
}
static bool sym_sorting_ok(SortRule r)
{
    return r == SortRule::LargestMagn || r == SortRule::LargestAlge || r == SortRule::SmallestMagn || r == SortRule::SmallestAlge;
}
static Real key_of(SortRule r, const Real& x)
{
    switch (r)
    {
        case SortRule::LargestMagn: return -sym::abs(x);
        case SortRule::LargestAlge:
        case SortRule::BothEnds: return -x;
        case SortRule::SmallestMagn: return sym::abs(x);
        case SortRule::SmallestAlge: return x;
        default: throw std::logic_error("no key");
    }
}

static int same_term(const Real& a, const Real& b)
{
    if (a.is_sym() != b.is_sym())
        return 0;
    if (!a.is_sym())
        return a.value() == b.value();
    return a.id == b.id || Z3_get_ast_id(sym::ctx(), a.term()) == Z3_get_ast_id(sym::ctx(), b.term());
}

struct RunCfg
{
    int n, nev, ncv;
    SortRule selection, sorting;
    int maxit;
    bool sym_tol;
    bool shift_solver;
    std::string history;  // "ic" init,compute | "icc" | "icic" | "c" (compute without init: only accessors checked)
    // 'C' in the history = compute() with these other arguments (a second run on the same object with another rule / maxit)
    SortRule selection2 = SortRule::LargestAlge, sorting2 = SortRule::LargestAlge;
    int maxit2 = 0;
};

// oracle evaluated after every compute()
template <typename Solver>
static void check_after_compute(Solver& eigs, const RunCfg& cfg, const Real& tol, Eigen::Index ret, const Real& sigma, long ops_before,
                                int restarts_before, const std::string& tagname)
{
    sym::Scope sc(tagname);
    stubs::State& s = st();
    const int nev = cfg.nev, ncv = cfg.ncv, n = cfg.n;
    RVec evals = eigs.eigenvalues();
    RMat evecs = eigs.eigenvectors();
    // ---- C05: counts / status
    sym::expect("return value == eigenvalues().size()", ret == evals.size(), "ret=" + std::to_string(ret) + " size=" + std::to_string(evals.size()));
    sym::expect("return value == eigenvectors().cols()", ret == evecs.cols(), "ret=" + std::to_string(ret) + " cols=" + std::to_string(evecs.cols()));
    sym::expect("eigenvectors().rows() == n", evecs.rows() == n || evecs.cols() == 0, "rows=" + std::to_string(evecs.rows()));
    sym::expect("return value <= nev", ret <= nev && ret >= 0, "ret=" + std::to_string(ret));
    sym::expect("info()==Successful iff count==nev", (eigs.info() == CompInfo::Successful) == (ret == nev) &&
                    (eigs.info() == CompInfo::Successful || eigs.info() == CompInfo::NotConverging), "info/ret mismatch");
    sym::expect("restarts <= maxit", s.restarts - restarts_before <= cfg.maxit, "restarts=" + std::to_string(s.restarts - restarts_before));
    sym::expect("num_operations()==true applications", eigs.num_operations() == s.true_ops,
                "num_operations=" + std::to_string(eigs.num_operations()) + " true=" + std::to_string(s.true_ops));
    sym::expect("work bound 2+2*ncv*(maxit+1)", s.true_ops - ops_before <= 2 + 2 * (long) ncv * (cfg.maxit + 1),
                "applications in this compute: " + std::to_string(s.true_ops - ops_before));
    sym::expect("user operator untouched by the glue", eigs.m_op.applied == 0, "operator applied outside the kernels");
    for (const std::string& pv : s.precondition_violations)
        sym::fail("kernel precondition (K3)", pv);
    s.precondition_violations.clear();
    // eigenvectors(m) = first min(m, count) columns
    for (int m = 0; m <= nev + 1; m++)
    {
        RMat part = eigs.eigenvectors(m);
        int want = std::min<int>(m, (int) ret);
        bool ok = part.cols() == want;
        for (int j = 0; ok && j < want; j++)
            for (int i = 0; i < n; i++)
                if (!same_term(part(i, j), evecs(i, j)))
                    ok = false;
        sym::expect("eigenvectors(" + std::to_string(m) + ") = first min(m,count) columns", ok, "wrong column count or content");
    }
    // ---- C01(d): every returned pair is a Ritz pair of the factorization the vectors are assembled from, and passed the
    //      convergence test on that factorization
    sym::expect("Ritz data belong to the current factorization", s.eig_gen == s.gen,
                "Ritz data of generation " + std::to_string(s.eig_gen) + ", factorization generation " + std::to_string(s.gen));
    const Real beta = eigs.m_fac.f_norm();
    const RMat& V = eigs.m_fac.matrix_V();
    const Real eps23 = Real(std::pow(sym::prof_epsilon().value(), 2.0 / 3.0));
    std::vector<int> src(ret, -1);
    for (int j = 0; j < (int) ret; j++)
    {
        // which Ritz value of the latest K1 call is this?  (shift solver: lambda = 1/theta + sigma, built by the real code)
        for (int i = 0; i < ncv && src[j] < 0; i++)
        {
            if (!cfg.shift_solver && same_term(evals[j], s.theta[i]))
                src[j] = i;
            if (cfg.shift_solver)
            {
                sym::DefScope d(sym::Def::Ignore);
                Real lam = Real(1) / s.theta[i] + sigma;
                if (same_term(evals[j], lam))
                    src[j] = i;
            }
        }
        std::string js = "[" + std::to_string(j) + "]";
        if (src[j] < 0)
        {
            sym::fail("returned value" + js + " is a current Ritz value", "eigenvalues()" + js + " is not a (back-transformed) Ritz value of the latest decomposition");
            continue;
        }
        sym::pass("returned value" + js + " is a current Ritz value");
        const int i = src[j];
        for (int k = 0; k < j; k++)
            if (src[k] == i)
                sym::fail("distinct pairs", "the same Ritz pair is returned twice");
        // convergence on the current factorization: |est_i| * beta < tol * max(eps23, |theta_i|)
        Real est = s.Z(ncv - 1, i);
        sym::check("returned pair" + js + " passes the convergence test on the current factorization",
                   sym::lt(sym::abs(est) * beta, tol * sym::smax(eps23, sym::abs(s.theta[i]))));
        // vector column j = V * z_i
        bool colok = true;
        for (int r = 0; r < n; r++)
        {
            Real acc(0);
            for (int c = 0; c < ncv; c++)
                acc = acc + V(r, c) * s.Z(c, i);
            if (!same_term(acc, evecs(r, j)))
                colok = sym::check_eq("eigenvector" + js + "(" + std::to_string(r) + ") = (V z_i)", evecs(r, j), acc) && colok;
        }
        if (colok)
            sym::pass("eigenvector" + js + " = V * z_src");
    }
    // ---- C05: order named by `sorting` (on the back-transformed values)
    for (int j = 0; j + 1 < (int) ret; j++)
        sym::check("values ordered by sorting rule [" + std::to_string(j) + "]", sym::le(key_of(cfg.sorting, evals[j]), key_of(cfg.sorting, evals[j + 1])));
    // ---- C04 (mechanism): on success the returned set is the rule's top-nev of the Ritz values of the latest decomposition
    if (eigs.info() == CompInfo::Successful && ret == nev)
    {
        std::vector<int> in(ncv, 0);
        bool all = true;
        for (int j = 0; j < nev; j++)
            if (src[j] >= 0)
                in[src[j]] = 1;
            else
                all = false;
        if (all && cfg.selection != SortRule::BothEnds)
        {
            expr ok = sym::btrue();
            for (int i = 0; i < ncv; i++)
                for (int o = 0; o < ncv; o++)
                    if (in[i] && !in[o])
                        ok = ok && sym::le(key_of(cfg.selection, s.theta[i]), key_of(cfg.selection, s.theta[o]));
            sym::check("returned set = top-nev by selection rule (of the iterated spectrum)", ok);
        }
        else if (all)
        {
            const int p = (nev + 1) / 2, q = nev / 2;
            expr ok = sym::btrue();
            for (int i = 0; i < ncv; i++)
            {
                Real greater(0), smaller(0), ge(0), le_(0);
                for (int o = 0; o < ncv; o++)
                    if (o != i)
                    {
                        greater = greater + sym::ite(sym::lt(s.theta[i], s.theta[o]), Real(1), Real(0));
                        smaller = smaller + sym::ite(sym::lt(s.theta[o], s.theta[i]), Real(1), Real(0));
                        ge = ge + sym::ite(sym::le(s.theta[i], s.theta[o]), Real(1), Real(0));
                        le_ = le_ + sym::ite(sym::le(s.theta[o], s.theta[i]), Real(1), Real(0));
                    }
                if (in[i])
                    ok = ok && (sym::lt(greater, Real(p)) || sym::lt(smaller, Real(q)));
                else
                    ok = ok && sym::le(Real(p), ge) && sym::le(Real(q), le_);
            }
            sym::check("returned set = ceil(k/2) largest + floor(k/2) smallest (BothEnds)", ok);
        }
    }
    // ---- C04: shifts used by every restart are the unwanted tail of the sorted Ritz values; nev <= k < ncv
    for (size_t r = 0; r < s.restart_k.size(); r++)
    {
        int k = s.restart_k[r];
        sym::expect("restart keeps nev <= k < ncv", k >= nev && k < ncv, "k=" + std::to_string(k));
        if (r < s.shifts.size())
            sym::expect("number of shifts = ncv - k", (int) s.shifts[r].size() == ncv - k,
                        "shifts=" + std::to_string(s.shifts[r].size()) + " ncv-k=" + std::to_string(ncv - k));
    }
}

static void glue_case(const RunCfg& cfg)
{
    st().reset();
    AbstractOp op(cfg.n);
    Real sigma = cfg.shift_solver ? sym::fresh("sigma") : Real(0);
    Real tol = cfg.sym_tol ? sym::fresh("tol", sym::NONNEG | sym::NONZERO) : Real(1e-10);
    RVec v0 = RVec::Zero(cfg.n);
    v0[0] = Real(1);
    bool sel_ok = sym_selection_ok(cfg.selection), sort_ok = sym_sorting_ok(cfg.sorting);
    auto body = [&](auto& eigs) {
        // before any compute(): NotComputed and empty accessors
        sym::expect("fresh object: info()==NotComputed", eigs.info() == CompInfo::NotComputed, "info not NotComputed");
        sym::expect("fresh object: accessors empty", eigs.eigenvalues().size() == 0 && eigs.eigenvectors().cols() == 0, "non-empty before compute");
        int step = 0;
        for (char h : cfg.history)
        {
            step++;
            if (h == 'i')
            {
                eigs.init(v0.data());
                sym::expect("after init(): accessors empty", eigs.eigenvalues().size() == 0 && eigs.eigenvectors().cols() == 0, "non-empty after init");
                sym::expect("after init(): num_operations()==true applications", eigs.num_operations() == st().true_ops, "counter mismatch after init");
                continue;
            }
            RunCfg cur = cfg;
            if (h == 'C')
            {
                cur.selection = cfg.selection2;
                cur.sorting = cfg.sorting2;
                cur.maxit = cfg.maxit2;
            }
            long ops_before = st().true_ops;
            int restarts_before = st().restarts;
            st().restart_k.clear();
            st().shifts.clear();
            st().shifts.resize(0);
            // restart bookkeeping is per compute(): shifts are indexed from the current restart count
            int base_restarts = st().restarts;
            (void) base_restarts;
            st().restarts = 0;
            Eigen::Index ret = -1;
            bool threw = false;
            try
            {
                ret = eigs.compute(cur.selection, cur.maxit, tol, cur.sorting);
            }
            catch (const std::invalid_argument& e)
            {
                threw = true;
            }
            int r = st().restarts;
            st().restarts = restarts_before + r;
            sym::expect("invalid_argument iff a rule is unsupported", threw == !(sel_ok && sort_ok),
                        std::string(threw ? "threw" : "accepted") + " selection=" + rule_name(cur.selection) + " sorting=" + rule_name(cur.sorting));
            if (threw || !(sel_ok && sort_ok))
                break;
            check_after_compute(eigs, cur, tol, ret, sigma, ops_before, restarts_before, "compute#" + std::to_string(step));
        }
    };
    if (cfg.shift_solver)
    {
        SymEigsShiftSolver<AbstractOp> eigs(op, cfg.nev, cfg.ncv, sigma);
        sym::expect("constructor installs the shift once", op.shift_sets == 1, "set_shift calls: " + std::to_string(op.shift_sets));
        sym::DefScope d(sym::Def::Assume);  // nu != 0: the shift is not an eigenvalue and 1/nu is defined
        body(eigs);
    }
    else
    {
        SymEigsSolver<AbstractOp> eigs(op, cfg.nev, cfg.ncv);
        body(eigs);
    }
    sym::witness("end");
}

// C13: restart-size function by state injection: real nev_adjusted() + real restart() from an arbitrary Ritz state
static void nevadj_case(int n, int nev, int ncv, int nconv)
{
    st().reset();
    AbstractOp op(n);
    SymEigsSolver<AbstractOp> eigs(op, nev, ncv);
    RVec v0 = RVec::Zero(n);
    v0[0] = Real(1);
    eigs.init(v0.data());
    eigs.m_fac.factorize_from(1, ncv, eigs.m_nmatop);
    // arbitrary Ritz state injected directly (any order: nev_adjusted() and restart() do not rely on it)
    for (int i = 0; i < ncv; i++)
    {
        eigs.m_ritz_val[i] = sym::fresh("rv_" + std::to_string(i));
        eigs.m_ritz_est[i] = sym::fresh("est_" + std::to_string(i));
    }
    Eigen::Index k = eigs.nev_adjusted(nconv);
    sym::note("k", std::to_string(k));
    sym::expect("1 <= k < ncv", k >= 1 && k < ncv, "k=" + std::to_string(k));
    sym::expect("k >= nev (wanted values are never purged)", k >= nev, "k=" + std::to_string(k));
    if (ncv > (getenv("VERIF_NEVADJ_RESTART_MAX") ? atoi(getenv("VERIF_NEVADJ_RESTART_MAX")) : 5))
    {
        // restart() ends with an argsort of ncv values (ncv! paths): only the size function is decided at these sizes
        sym::witness("end");
        return;
    }
    int restarts0 = st().restarts;
    eigs.restart(k, SortRule::LargestMagn);
    sym::expect("restart performed with kept dimension k", st().restarts == restarts0 + 1 && st().restart_k.back() == k, "restart bookkeeping");
    sym::expect("factorization valid at ncv after restart", st().valid_k == ncv && eigs.m_fac.subspace_dim() == ncv, "valid_k=" + std::to_string(st().valid_k));
    for (const std::string& pv : st().precondition_violations)
        sym::fail("kernel precondition (K3)", pv);
    // the shifts are the ncv-k unwanted values (any order)
    bool ok = (int) st().shifts.size() >= 1 && (int) st().shifts.back().size() == ncv - k;
    sym::expect("ncv-k shifts applied", ok, "shift count");
    sym::witness("end");
}

int main(int argc, char** argv)
{
    std::vector<sym::Case> cases;
    for (int ncv = 2; ncv <= 8; ncv++)
        for (int nev = 1; nev < ncv; nev++)
            for (int nconv = 0; nconv < nev; nconv++)
            {
                if (ncv - nev > 4)
                    continue;  // 2^(ncv-nev) * (ncv-k)! paths: larger gaps are thorough-tier sizes of the whole-run cases
                int n = ncv + 1;
                cases.push_back({"nevadj/k" + std::to_string(nev) + "m" + std::to_string(ncv) + "/nconv" + std::to_string(nconv),
                                 [n, nev, ncv, nconv]() { nevadj_case(n, nev, ncv, nconv); }});
            }
    auto add = [&](const std::string& fam, RunCfg c) {
        std::string nm = fam + "/n" + std::to_string(c.n) + "k" + std::to_string(c.nev) + "m" + std::to_string(c.ncv) + "/" + rule_name(c.selection) + "/" +
            rule_name(c.sorting) + "/maxit" + std::to_string(c.maxit) + "/" + c.history + (c.sym_tol ? "/symtol" : "") + (c.shift_solver ? "/shift" : "");
        if (c.history.find('C') != std::string::npos)
            nm += std::string("/then-") + rule_name(c.selection2) + "-" + rule_name(c.sorting2) + "-maxit" + std::to_string(c.maxit2);
        cases.push_back({nm, [c]() { glue_case(c); }});
    };
    const SortRule sels[] = {SortRule::LargestMagn, SortRule::LargestAlge, SortRule::SmallestMagn, SortRule::SmallestAlge, SortRule::BothEnds};
    const SortRule sorts[] = {SortRule::LargestAlge, SortRule::LargestMagn, SortRule::SmallestAlge, SortRule::SmallestMagn};
    const int sizes[][3] = {{4, 2, 3}, {5, 2, 4}, {5, 3, 4}, {3, 1, 2}, {6, 1, 3}, {6, 2, 5}, {7, 1, 6}};
    for (auto& sz : sizes)
        for (int maxit = 0; maxit <= 3; maxit++)
        {
            for (SortRule sel : sels)
                add("sym", RunCfg{sz[0], sz[1], sz[2], sel, SortRule::LargestAlge, maxit, false, false, "ic"});
            for (SortRule so : sorts)
                if (so != SortRule::LargestAlge)
                    add("sym", RunCfg{sz[0], sz[1], sz[2], SortRule::LargestMagn, so, maxit, false, false, "ic"});
            add("sym", RunCfg{sz[0], sz[1], sz[2], SortRule::BothEnds, SortRule::SmallestMagn, maxit, false, false, "ic"});
            add("sym", RunCfg{sz[0], sz[1], sz[2], SortRule::LargestMagn, SortRule::LargestAlge, maxit, true, false, "ic"});
            add("symshift", RunCfg{sz[0], sz[1], sz[2], SortRule::LargestMagn, SortRule::LargestAlge, maxit, false, true, "ic"});
            add("symshift", RunCfg{sz[0], sz[1], sz[2], SortRule::BothEnds, SortRule::SmallestAlge, maxit, false, true, "ic"});
            add("hist", RunCfg{sz[0], sz[1], sz[2], SortRule::LargestAlge, SortRule::LargestAlge, maxit, false, false, "icc"});
            add("hist", RunCfg{sz[0], sz[1], sz[2], SortRule::SmallestMagn, SortRule::LargestAlge, maxit, false, false, "icic"});
        }
    // full-space: ncv == n, the factorization is exact, everything converges at once (C04 mechanism)
    const int full[][3] = {{3, 1, 3}, {3, 2, 3}, {4, 2, 4}, {4, 3, 4}, {5, 2, 5}};
    for (auto& sz : full)
        for (SortRule sel : sels)
        {
            add("full", RunCfg{sz[0], sz[1], sz[2], sel, SortRule::LargestAlge, 2, false, false, "ic"});
            add("fullshift", RunCfg{sz[0], sz[1], sz[2], sel, SortRule::LargestAlge, 2, false, true, "ic"});
        }
    // a second compute() with OTHER arguments on the same object, no init() in between (rule / maxit of the latest call must govern)
    {
        const int hs[][3] = {{3, 1, 2}, {4, 2, 3}};
        for (auto& sz : hs)
            for (int maxit = 0; maxit <= 1; maxit++)
                for (int maxit2 = 0; maxit2 <= 1; maxit2++)
                    for (int sh = 0; sh < 2; sh++)
                    {
                        add("hist2", RunCfg{sz[0], sz[1], sz[2], SortRule::LargestAlge, SortRule::LargestAlge, maxit, false, sh == 1, "icC", SortRule::SmallestAlge, SortRule::LargestAlge, maxit2});
                        add("hist2", RunCfg{sz[0], sz[1], sz[2], SortRule::BothEnds, SortRule::LargestAlge, maxit, false, sh == 1, "icC", SortRule::LargestMagn, SortRule::SmallestMagn, maxit2});
                    }
        const int fs[][3] = {{3, 1, 3}, {4, 2, 4}};
        for (auto& sz : fs)
            for (int maxit2 = 0; maxit2 <= 2; maxit2 += 2)
                for (int sh = 0; sh < 2; sh++)
                {
                    add("full2", RunCfg{sz[0], sz[1], sz[2], SortRule::LargestAlge, SortRule::LargestAlge, 2, false, sh == 1, "icC", SortRule::SmallestAlge, SortRule::LargestAlge, maxit2});
                    add("full2", RunCfg{sz[0], sz[1], sz[2], SortRule::SmallestMagn, SortRule::LargestAlge, 2, false, sh == 1, "icC", SortRule::BothEnds, SortRule::SmallestAlge, maxit2});
                }
    }
    // rule validation (C12 / C18): every rule as selection and as sorting
    for (SortRule r : all_rules)
    {
        add("rules-selection", RunCfg{4, 2, 3, r, SortRule::LargestAlge, 0, false, false, "ic"});
        add("rules-sorting", RunCfg{4, 2, 3, SortRule::LargestMagn, r, 0, false, false, "ic"});
        add("rules-sorting", RunCfg{4, 2, 3, SortRule::LargestMagn, r, 0, false, true, "ic"});
        add("rules-sorting-nev1", RunCfg{3, 1, 2, SortRule::LargestMagn, r, 0, false, false, "ic"});
        add("rules-selection-nev1", RunCfg{3, 1, 2, r, SortRule::LargestAlge, 0, false, false, "ic"});
    }
    return sym::run_main(argc, argv, cases);
}
