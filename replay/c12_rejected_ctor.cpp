// Concrete companion of the C12 check (no solver verdict): every solver class, rejected constructions must throw
// std::invalid_argument and leave no live allocation behind (global operator new / delete counted, malloc-based Eigen storage
// counted through the same hooks via EIGEN_MALLOC-free paths: Eigen's aligned_malloc ends in std::malloc, which is wrapped here).
// Triples: one violating each documented bound for a 10 x 10 problem, for the classes whose constructors the IR-level check does
// not reach completely (generalized solvers in all five modes, Davidson, partial SVD) and, for reference, the plain ones.
#include <cstdlib>
#include <new>
static long g_live = 0;
void* operator new(std::size_t n) { g_live++; void* p = std::malloc(n ? n : 1); if (!p) throw std::bad_alloc(); return p; }
void operator delete(void* p) noexcept { if (p) { g_live--; std::free(p); } }
void operator delete(void* p, std::size_t) noexcept { if (p) { g_live--; std::free(p); } }
static long g_mlive = 0;
extern "C" void* __libc_malloc(size_t);
extern "C" void __libc_free(void*);
extern "C" void* malloc(size_t n) { void* p = __libc_malloc(n); if (p) g_mlive++; return p; }
extern "C" void free(void* p) { if (p) g_mlive--; __libc_free(p); }
#include <Eigen/Core>
#include <Eigen/SparseCore>
#include <Spectra/SymEigsSolver.h>
#include <Spectra/SymEigsShiftSolver.h>
#include <Spectra/GenEigsSolver.h>
#include <Spectra/GenEigsRealShiftSolver.h>
#include <Spectra/GenEigsComplexShiftSolver.h>
#include <Spectra/SymGEigsSolver.h>
#include <Spectra/SymGEigsShiftSolver.h>
#include <Spectra/DavidsonSymEigsSolver.h>
#include <Spectra/contrib/PartialSVDSolver.h>
#include <Spectra/MatOp/DenseSymMatProd.h>
#include <Spectra/MatOp/DenseGenMatProd.h>
#include <Spectra/MatOp/DenseSymShiftSolve.h>
#include <Spectra/MatOp/DenseGenRealShiftSolve.h>
#include <Spectra/MatOp/DenseGenComplexShiftSolve.h>
#include <Spectra/MatOp/DenseCholesky.h>
#include <Spectra/MatOp/SparseRegularInverse.h>
#include <Spectra/MatOp/SymShiftInvert.h>
#include <iostream>
#include <string>
using namespace Spectra;
static int bad = 0;
template <typename F>
static void rejected(const std::string& what, bool valid, F make)
{
    long b1 = g_live, b2 = g_mlive;
    bool threw = false, other = false;
    try
    {
        make();
    }
    catch (const std::invalid_argument&)
    {
        threw = true;
    }
    catch (...)
    {
        other = true;
    }
    if (other || threw == valid)
    {
        std::cout << "WITNESS " << what << ": " << (other ? "foreign exception" : (threw ? "valid arguments rejected" : "invalid arguments accepted")) << "\n";
        bad = 1;
    }
    if (g_live != b1 || g_mlive != b2)
    {
        std::cout << "WITNESS " << what << ": " << (threw ? "rejected" : "finished") << " construction left " << (g_live - b1) << " new / " << (g_mlive - b2) << " malloc allocation(s) alive\n";
        bad = 1;
    }
}
int main()
{
    const int n = 10;
    Eigen::MatrixXd A = Eigen::MatrixXd::Zero(n, n), B = Eigen::MatrixXd::Identity(n, n);
    for (int i = 0; i < n; i++)
    {
        A(i, i) = 2 + i;
        if (i + 1 < n)
            A(i, i + 1) = A(i + 1, i) = -1;
        B(i, i) = 1 + 0.1 * i;
    }
    Eigen::SparseMatrix<double> Bs = B.sparseView();
    // (nev, ncv, valid for symmetric family, valid for general family)
    const long T[][2] = {{0, 5}, {-1, 5}, {10, 11}, {3, 3}, {3, 2}, {3, 11}, {3, 12}, {9, 10}, {8, 10}, {3, 4}, {3, 5}, {3, 10}};
    for (auto& t : T)
    {
        long nev = t[0], ncv = t[1];
        bool vs = nev >= 1 && nev <= n - 1 && ncv > nev && ncv <= n;
        bool vg = nev >= 1 && nev <= n - 2 && ncv >= nev + 2 && ncv <= n;
        std::string s = "(nev, ncv) = (" + std::to_string(nev) + ", " + std::to_string(ncv) + ")";
        using SI = SymShiftInvert<double, Eigen::Dense, Eigen::Dense>;
        rejected("SymEigsSolver " + s, vs, [&]() { DenseSymMatProd<double> op(A); SymEigsSolver<DenseSymMatProd<double>> e(op, nev, ncv); });
        rejected("SymEigsShiftSolver " + s, vs, [&]() { DenseSymShiftSolve<double> sop(A); SymEigsShiftSolver<DenseSymShiftSolve<double>> e(sop, nev, ncv, 0.5); });
        rejected("GenEigsSolver " + s, vg, [&]() { DenseGenMatProd<double> gop(A); GenEigsSolver<DenseGenMatProd<double>> e(gop, nev, ncv); });
        rejected("GenEigsRealShiftSolver " + s, vg, [&]() { DenseGenRealShiftSolve<double> grop(A); GenEigsRealShiftSolver<DenseGenRealShiftSolve<double>> e(grop, nev, ncv, 0.5); });
        rejected("GenEigsComplexShiftSolver " + s, vg, [&]() { DenseGenComplexShiftSolve<double> gcop(A); GenEigsComplexShiftSolver<DenseGenComplexShiftSolve<double>> e(gcop, nev, ncv, 0.5, 0.25); });
        rejected("SymGEigsSolver<Cholesky> " + s, vs, [&]() { DenseSymMatProd<double> op(A); DenseCholesky<double> bchol(B); SymGEigsSolver<DenseSymMatProd<double>, DenseCholesky<double>, GEigsMode::Cholesky> e(op, bchol, nev, ncv); });
        rejected("SymGEigsSolver<RegularInverse> " + s, vs, [&]() { DenseSymMatProd<double> op(A); SparseRegularInverse<double> breg(Bs); SymGEigsSolver<DenseSymMatProd<double>, SparseRegularInverse<double>, GEigsMode::RegularInverse> e(op, breg, nev, ncv); });
        rejected("SymGEigsShiftSolver<ShiftInvert> " + s, vs, [&]() { SI si(A, B); DenseSymMatProd<double> op(A); SymGEigsShiftSolver<SI, DenseSymMatProd<double>, GEigsMode::ShiftInvert> e(si, op, nev, ncv, 0.5); });
        rejected("SymGEigsShiftSolver<Buckling> " + s, vs, [&]() { SI si(A, B); DenseSymMatProd<double> op(A); SymGEigsShiftSolver<SI, DenseSymMatProd<double>, GEigsMode::Buckling> e(si, op, nev, ncv, 0.5); });
        rejected("SymGEigsShiftSolver<Cayley> " + s, vs, [&]() { SI si(A, B); DenseSymMatProd<double> op(A); SymGEigsShiftSolver<SI, DenseSymMatProd<double>, GEigsMode::Cayley> e(si, op, nev, ncv, 0.5); });
        rejected("PartialSVDSolver " + s, vs, [&]() { PartialSVDSolver<Eigen::MatrixXd> e(A, nev, ncv); });
    }
    // sigma == 0 in buckling / Cayley mode, valid (nev, ncv)
    {
        using SI = SymShiftInvert<double, Eigen::Dense, Eigen::Dense>;
        rejected("SymGEigsShiftSolver<Buckling> sigma = 0", false, [&]() { SI si(A, B); DenseSymMatProd<double> op(A); SymGEigsShiftSolver<SI, DenseSymMatProd<double>, GEigsMode::Buckling> e(si, op, 3, 6, 0.0); });
        rejected("SymGEigsShiftSolver<Cayley> sigma = 0", false, [&]() { SI si(A, B); DenseSymMatProd<double> op(A); SymGEigsShiftSolver<SI, DenseSymMatProd<double>, GEigsMode::Cayley> e(si, op, 3, 6, 0.0); });
        rejected("SymGEigsShiftSolver<ShiftInvert> sigma = 0", true, [&]() { SI si(A, B); DenseSymMatProd<double> op(A); SymGEigsShiftSolver<SI, DenseSymMatProd<double>, GEigsMode::ShiftInvert> e(si, op, 3, 6, 0.0); });
    }
    // Davidson: 1 <= nev <= n-1
    for (long nev : {0L, -1L, 10L, 11L, 1L, 9L})
    {
        bool v = nev >= 1 && nev <= n - 1;
        rejected("DavidsonSymEigsSolver nev = " + std::to_string(nev), v, [&]() { DenseSymMatProd<double> op(A); DavidsonSymEigsSolver<DenseSymMatProd<double>> e(op, nev); });
    }
    std::cout << (bad ? "FAIL" : "ok") << "\n";
    return bad;
}
