// Concrete replay for GenEigsBase::restart reading m_ritz_val[ncv] (C13): all eigenvalues of a cyclic permutation matrix
// have modulus 1, so sorting by magnitude may separate conjugate pairs and leave a complex Ritz value in the last slot.
// Eigen index assertions are redirected to an exception; exit 1 with a witness if one fires.
#include <stdexcept>
#include <string>
#define eigen_assert(x) do { if (!(x)) throw std::runtime_error(std::string("eigen_assert: ") + #x); } while (false)
#include <Eigen/Core>
#include <Spectra/GenEigsSolver.h>
#include <Spectra/MatOp/DenseGenMatProd.h>
#include <iostream>
using namespace Spectra;
int main()
{
    int found = 0, runs = 0;
    for (int n = 6; n <= 16 && !found; n++)
        for (int nev = 1; nev <= 3 && !found; nev++)
            for (int ncv = nev + 2; ncv <= std::min(n, nev + 6) && !found; ncv++)
            {
                Eigen::MatrixXd A = Eigen::MatrixXd::Zero(n, n);
                for (int i = 0; i < n; i++)
                    A((i + 1) % n, i) = 1.0;
                DenseGenMatProd<double> op(A);
                GenEigsSolver<DenseGenMatProd<double>> eigs(op, nev, ncv);
                runs++;
                try
                {
                    eigs.init();
                    eigs.compute(SortRule::LargestMagn, 50, 1e-10);
                }
                catch (const std::exception& e)
                {
                    std::cout << "WITNESS cyclic permutation n=" << n << " nev=" << nev << " ncv=" << ncv << " LargestMagn: " << e.what() << "\n";
                    found = 1;
                }
            }
    std::cout << "runs=" << runs << " witness=" << found << "\n";
    return found;
}
