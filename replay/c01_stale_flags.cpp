// Concrete replay for the stale-convergence-flag finding (C01/C02/C05): real double solver, real dense operator.
// Family: A = diag(10,9,8,7, cluster in (0,1]) (gen: plus a 0.01 sub-diagonal), start vector with a tiny component
// (1e-4 .. 1e-12) along the dominant eigenvector, so that the dominant Ritz value emerges late and takes over a slot
// whose convergence flag was computed for another Ritz pair.  Exit 1 with a witness if a run that exhausts maxit hands
// back a pair whose true residual exceeds the requested bound; 0 otherwise.
#include <Eigen/Core>
#include <Spectra/SymEigsSolver.h>
#include <Spectra/GenEigsSolver.h>
#include <Spectra/MatOp/DenseSymMatProd.h>
#include <Spectra/MatOp/DenseGenMatProd.h>
#include <iostream>
#include <cstring>
using namespace Spectra;
int main(int argc, char** argv)
{
    bool gen = argc > 1 && !strcmp(argv[1], "gen");
    const double tol = 1e-10, eps23 = std::pow(2.2e-16, 2.0 / 3.0);
    int found = 0, runs = 0;
    for (int n : {20, 30})
        for (double small : {1e-4, 1e-6, 1e-8, 1e-10, 1e-12})
            for (int nev : {2, 3})
                for (int ncv : {nev + 3, nev + 4, 2 * nev + 1})
                    for (int maxit = 1; maxit <= 40 && !found; maxit++)
                    {
                        Eigen::MatrixXd A = Eigen::MatrixXd::Zero(n, n);
                        for (int i = 0; i < n; i++)
                            A(i, i) = i < 4 ? 10.0 - i : 1.0 - i / double(n);
                        if (gen)
                            for (int i = 0; i + 1 < n; i++)
                                A(i + 1, i) = 0.01;
                        Eigen::VectorXd v0 = Eigen::VectorXd::Ones(n);
                        v0[0] = small;
                        runs++;
                        auto check = [&](auto& eigs, SortRule rule) {
                            eigs.init(v0.data());
                            int nconv = eigs.compute(rule, maxit, tol);
                            if (eigs.info() != CompInfo::NotConverging)
                                return;
                            auto ev = eigs.eigenvalues();
                            auto U = eigs.eigenvectors();
                            for (int j = 0; j < nconv; j++)
                            {
                                double res = (A * U.col(j) - ev[j] * U.col(j)).norm();
                                double bound = 100 * tol * std::max(eps23, std::abs(ev[j])) + 1e-12 * A.norm();
                                if (res > bound && !found)
                                {
                                    std::cout << "WITNESS " << (gen ? "gen" : "sym") << " n=" << n << " v0[0]=" << small << " nev=" << nev << " ncv=" << ncv << " maxit=" << maxit
                                              << " returned pair " << j << " value=" << ev[j] << " residual=" << res << " bound=" << bound << "\n";
                                    found = 1;
                                }
                            }
                        };
                        if (!gen)
                        {
                            DenseSymMatProd<double> op(A);
                            SymEigsSolver<DenseSymMatProd<double>> eigs(op, nev, ncv);
                            check(eigs, SortRule::LargestAlge);
                        }
                        else
                        {
                            DenseGenMatProd<double> op(A);
                            GenEigsSolver<DenseGenMatProd<double>> eigs(op, nev, ncv);
                            check(eigs, SortRule::LargestReal);
                        }
                    }
    std::cout << (gen ? "gen" : "sym") << ": runs=" << runs << " witness=" << found << "\n";
    return found;
}
