// Concrete replay (C06/C02): GenEigsComplexShiftSolver::sort_ritzpair re-factorizes the user's operator at a probe shift and
// does not restore the shift installed at construction.  Exit 1 with a witness if the operator behaves differently after
// compute(), or if a second init()+compute() on the same solver returns different eigenvalues.
#include <Eigen/Core>
#include <Spectra/GenEigsComplexShiftSolver.h>
#include <Spectra/MatOp/DenseGenComplexShiftSolve.h>
#include <iostream>
using namespace Spectra;
int main()
{
    const int n = 12;
    unsigned s = 4242;
    auto rnd = [&]() { s = s * 1664525u + 1013904223u; return ((s >> 8) & 0xffffff) / double(1 << 24) - 0.5; };
    Eigen::MatrixXd A(n, n);
    for (int i = 0; i < n; i++)
        for (int j = 0; j < n; j++)
            A(i, j) = rnd();
    DenseGenComplexShiftSolve<double> op(A);
    GenEigsComplexShiftSolver<DenseGenComplexShiftSolve<double>> eigs(op, 3, 8, 0.4, 0.3);
    Eigen::VectorXd w = Eigen::VectorXd::LinSpaced(n, 1, 2), y0(n), y1(n);
    op.perform_op(w.data(), y0.data());
    eigs.init();
    int nconv = eigs.compute(SortRule::LargestMagn);
    Eigen::VectorXcd ev1 = eigs.eigenvalues();
    op.perform_op(w.data(), y1.data());
    int bad = 0;
    if (!(y0.array() == y1.array()).all())
    {
        std::cout << "WITNESS operator changed by compute(): |op(w) before - after| = " << (y0 - y1).norm() << " (shift left at the probe value)\n";
        bad = 1;
    }
    eigs.init();
    eigs.compute(SortRule::LargestMagn);
    Eigen::VectorXcd ev2 = eigs.eigenvalues();
    if (ev1.size() != ev2.size() || !(ev1.array() == ev2.array()).all())
    {
        std::cout << "WITNESS second init()+compute() on the same solver differs: first " << ev1.transpose() << " second " << ev2.transpose() << "\n";
        bad = 1;
    }
    if (!bad)
        std::cout << "ok nconv=" << nconv << "\n";
    return bad;
}
