// Concrete replay (C11): SparseRegularInverse<double, Eigen::Upper>::solve must solve with the matrix defined by the UPPER
// triangle.  The conjugate-gradient member was declared without the triangle option (Eigen's default: Lower).
#include <Eigen/Sparse>
#include <Spectra/Util/CompInfo.h>
#include <Spectra/MatOp/SparseRegularInverse.h>
#include <iostream>
int main()
{
    const int n = 6;
    Eigen::MatrixXd B = Eigen::MatrixXd::Zero(n, n);
    for (int i = 0; i < n; i++)
    {
        B(i, i) = 4.0 + i;
        if (i + 1 < n)
            B(i, i + 1) = B(i + 1, i) = 1.0;
    }
    Eigen::MatrixXd stored = B.triangularView<Eigen::Upper>();  // only the documented triangle is stored
    Eigen::SparseMatrix<double> Bs = stored.sparseView();
    Spectra::SparseRegularInverse<double, Eigen::Upper> op(Bs);
    Eigen::VectorXd x = Eigen::VectorXd::LinSpaced(n, 1, n), y(n);
    op.solve(x.data(), y.data());
    double res = (B * y - x).norm() / x.norm();
    if (res > 1e-8)
    {
        std::cout << "WITNESS SparseRegularInverse<double, Upper>::solve: relative residual " << res << " against the matrix defined by the upper triangle\n";
        return 1;
    }
    std::cout << "ok, residual " << res << "\n";
    return 0;
}
