// Concrete replay for "compute() after compute() without init()" (C01/C02): the second compute() re-factorizes from step 1
// although the object holds a step-ncv factorization.  Exit 1 with a witness if a pair handed back by the second compute()
// is not an eigenpair to the requested accuracy.
#include <Eigen/Core>
#include <Spectra/SymEigsSolver.h>
#include <Spectra/GenEigsSolver.h>
#include <Spectra/MatOp/DenseSymMatProd.h>
#include <Spectra/MatOp/DenseGenMatProd.h>
#include <iostream>
#include <cstring>
using namespace Spectra;
static double urand(unsigned& s)
{
    s = s * 1664525u + 1013904223u;
    return ((s >> 8) & 0xffffff) / double(1 << 24) - 0.5;
}
int main(int argc, char** argv)
{
    bool gen = argc > 1 && !strcmp(argv[1], "gen");
    const double tol = 1e-10, eps23 = std::pow(2.2e-16, 2.0 / 3.0);
    int found = 0, runs = 0;
    for (int n = 15; n <= 45 && !found; n += 10)
        for (unsigned seed = 1; seed <= 10 && !found; seed++)
            for (int first = 1; first <= 4 && !found; first++)
            {
                unsigned s = seed * 7919u + n;
                Eigen::MatrixXd M(n, n);
                for (int i = 0; i < n; i++)
                    for (int j = 0; j < n; j++)
                        M(i, j) = urand(s);
                const int nev = 3, ncv = 8;
                runs++;
                auto check = [&](const Eigen::MatrixXd& A, auto& eigs) {
                    eigs.init();
                    eigs.compute(SortRule::LargestMagn, first, tol);
                    int nconv = eigs.compute(SortRule::LargestMagn, 1000, tol);
                    auto ev = eigs.eigenvalues();
                    auto U = eigs.eigenvectors();
                    for (int j = 0; j < nconv; j++)
                    {
                        double res = (A * U.col(j) - ev[j] * U.col(j)).norm();
                        double bound = 100 * tol * std::max(eps23, std::abs(ev[j])) + 1e-11 * A.norm();
                        if (res > bound && !found)
                        {
                            std::cout << "WITNESS " << (gen ? "gen" : "sym") << " n=" << n << " seed=" << seed << " first maxit=" << first << " info="
                                      << int(eigs.info()) << " pair " << j << " value=" << ev[j] << " residual=" << res << " bound=" << bound << "\n";
                            found = 1;
                        }
                    }
                };
                if (!gen)
                {
                    Eigen::MatrixXd A = M + M.transpose();
                    DenseSymMatProd<double> op(A);
                    SymEigsSolver<DenseSymMatProd<double>> eigs(op, nev, ncv);
                    check(A, eigs);
                }
                else
                {
                    Eigen::MatrixXd A = M;
                    DenseGenMatProd<double> op(A);
                    GenEigsSolver<DenseGenMatProd<double>> eigs(op, nev, ncv);
                    check(A, eigs);
                }
            }
    std::cout << (gen ? "gen" : "sym") << ": runs=" << runs << " witness=" << found << "\n";
    return found;
}
