// Concrete replay (C16/C06/C12): PartialSVDSolver (a) keeps the singular vectors of the first compute() forever,
// (b) leaks its operator object when the nested solver's constructor rejects (ncomp, ncv).
#include <cstdlib>
#include <new>
static long g_live = 0;
void* operator new(std::size_t n) { g_live++; void* p = std::malloc(n ? n : 1); if (!p) throw std::bad_alloc(); return p; }
void operator delete(void* p) noexcept { if (p) { g_live--; std::free(p); } }
void operator delete(void* p, std::size_t) noexcept { if (p) { g_live--; std::free(p); } }
#include <stdexcept>
#include <string>
#define eigen_assert(x) do { if (!(x)) throw std::runtime_error(std::string("eigen_assert: ") + #x); } while (false)
#include <Eigen/Core>
#include <Spectra/contrib/PartialSVDSolver.h>
#include <iostream>
using namespace Spectra;
int main()
{
    int bad = 0;
    const int m = 30, n = 12;
    Eigen::MatrixXd A(m, n);
    unsigned s = 99;
    for (int i = 0; i < m; i++)
        for (int j = 0; j < n; j++)
        {
            s = s * 1664525u + 1013904223u;
            A(i, j) = ((s >> 8) & 0xffffff) / double(1 << 24) - 0.5;
        }
    // slowly decaying singular values so that a short first run converges only partly
    for (int j = 0; j < n; j++)
        A.col(j) *= 1.0 / (1.0 + 0.05 * j);
    for (int first = 1; first <= 12 && !bad; first++)
    {
        PartialSVDSolver<Eigen::MatrixXd> svd(A, 4, 7);
        int n1 = svd.compute(first, 1e-12);
        if (n1 <= 0 || n1 >= 4)
            continue;
        Eigen::MatrixXd V1 = svd.matrix_V(4);
        int n2 = svd.compute(1000, 1e-10);
        try
        {
            Eigen::MatrixXd V2 = svd.matrix_V(4), U2 = svd.matrix_U(4);
            Eigen::VectorXd sv = svd.singular_values();
            bool ok = V2.cols() == std::min(4, n2) && U2.cols() == V2.cols();
            double err = ok ? (A * V2 - U2 * sv.head(V2.cols()).asDiagonal()).norm() : 1.0;
            if (!ok || err > 1e-8)
            {
                std::cout << "WITNESS second compute(): nconv " << n1 << " -> " << n2 << ", matrix_V(4) has " << V2.cols() << " columns, |AV-US| = " << err << " (vectors of the first run are still cached)\n";
                bad = 1;
            }
        }
        catch (const std::exception& e)
        {
            std::cout << "WITNESS second compute(): nconv " << n1 << " -> " << n2 << ", accessor failed: " << e.what() << "\n";
            bad = 1;
        }
    }
    {
        long before = g_live;
        try
        {
            PartialSVDSolver<Eigen::MatrixXd> svd(A, 12, 12);  // ncomp must be < min(m, n)
            std::cout << "WITNESS invalid (ncomp, ncv) accepted\n";
            bad = 1;
        }
        catch (const std::invalid_argument&)
        {
        }
        if (g_live != before)
        {
            std::cout << "WITNESS rejected construction leaked " << (g_live - before) << " allocation(s)\n";
            bad = 1;
        }
    }
    if (!bad)
        std::cout << "ok\n";
    return bad;
}
