// Concrete replay (C15): Davidson's diagonal-preconditioned correction divides the residual by (theta - a_ii) without a guard.
// A matrix with an exactly decoupled coordinate whose diagonal entry is picked by the initial space gives theta == a_ii and a
// zero residual entry there: 0/0.  Exit 1 with a witness if any returned value is not finite.
#include <Eigen/Core>
#include <Spectra/DavidsonSymEigsSolver.h>
#include <Spectra/MatOp/DenseSymMatProd.h>
#include <iostream>
using namespace Spectra;
int main()
{
    const int n = 12;
    Eigen::MatrixXd A = Eigen::MatrixXd::Zero(n, n);
    unsigned s = 7;
    for (int i = 1; i < n; i++)
        for (int j = 1; j <= i; j++)
        {
            s = s * 1664525u + 1013904223u;
            double v = ((s >> 8) & 0xffffff) / double(1 << 24) - 0.5;
            A(i, j) = A(j, i) = (i == j) ? 3.0 + i : 0.3 * v;
        }
    A(0, 0) = 40.0;  // decoupled coordinate with the largest diagonal entry
    DenseSymMatProd<double> op(A);
    DavidsonSymEigsSolver<DenseSymMatProd<double>> solver(op, 2);
    int nconv = solver.compute(SortRule::LargestAlge, 100, 1e-8);
    Eigen::VectorXd ev = solver.eigenvalues();
    Eigen::MatrixXd U = solver.eigenvectors();
    if (!ev.allFinite() || !U.allFinite())
    {
        std::cout << "WITNESS Davidson returned non-finite values: nconv=" << nconv << " info=" << int(solver.info()) << " eigenvalues " << ev.transpose() << "\n";
        return 1;
    }
    std::cout << "ok nconv=" << nconv << " eigenvalues " << ev.transpose() << "\n";
    return 0;
}
