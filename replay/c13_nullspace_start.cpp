// Concrete replay (C13/C01): start vector in the null space of A (A*v0 = 0).  Arnoldi::init forces v0 into range(A) and
// normalises by ||A v0|| without a zero check.  Exit 1 with a witness if compute() returns non-finite values or ends with
// anything but finite results / std::invalid_argument.
#include <Eigen/Core>
#include <Spectra/SymEigsSolver.h>
#include <Spectra/GenEigsSolver.h>
#include <Spectra/MatOp/DenseSymMatProd.h>
#include <Spectra/MatOp/DenseGenMatProd.h>
#include <iostream>
using namespace Spectra;
template <typename Solver, typename Op>
static int run(const char* what, Op& op, const Eigen::VectorXd& v0, int nev, int ncv)
{
    Solver eigs(op, nev, ncv);
    try
    {
        eigs.init(v0.data());
        int nconv = eigs.compute(SortRule::LargestMagn, 100, 1e-10);
        auto ev = eigs.eigenvalues();
        auto U = eigs.eigenvectors();
        bool finite = ev.allFinite() && U.allFinite();
        if (!finite)
        {
            std::cout << "WITNESS " << what << ": compute() returned non-finite results (nconv=" << nconv << ")\n";
            return 1;
        }
        std::cout << what << ": ok, nconv=" << nconv << " info=" << int(eigs.info()) << "\n";
        return 0;
    }
    catch (const std::invalid_argument& e)
    {
        std::cout << what << ": invalid_argument: " << e.what() << "\n";
        return 0;
    }
    catch (const std::exception& e)
    {
        std::cout << "WITNESS " << what << ": undocumented exception: " << e.what() << "\n";
        return 1;
    }
}
int main()
{
    int bad = 0;
    const int n = 8;
    {
        Eigen::MatrixXd A = Eigen::MatrixXd::Zero(n, n);  // zero matrix: every vector is in the null space
        Eigen::VectorXd v0 = Eigen::VectorXd::Ones(n);
        DenseSymMatProd<double> op(A);
        bad |= run<SymEigsSolver<DenseSymMatProd<double>>>("sym zero matrix", op, v0, 2, 5);
        DenseGenMatProd<double> gop(A);
        bad |= run<GenEigsSolver<DenseGenMatProd<double>>>("gen zero matrix", gop, v0, 2, 5);
    }
    {
        Eigen::MatrixXd A = Eigen::MatrixXd::Zero(n, n);  // diag(0,1,...,7), start vector e_0 in the null space
        for (int i = 0; i < n; i++)
            A(i, i) = i;
        Eigen::VectorXd v0 = Eigen::VectorXd::Zero(n);
        v0[0] = 1;
        DenseSymMatProd<double> op(A);
        bad |= run<SymEigsSolver<DenseSymMatProd<double>>>("sym diag, v0=e0 in null space", op, v0, 2, 5);
        DenseGenMatProd<double> gop(A);
        bad |= run<GenEigsSolver<DenseGenMatProd<double>>>("gen diag, v0=e0 in null space", gop, v0, 2, 5);
    }
    return bad;
}
