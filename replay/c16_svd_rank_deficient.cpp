// Concrete replay (C16/C13): PartialSVDSolver on exactly rank-deficient input. (a) a converged eigenvalue of A'A that is a tiny
// negative number (rounding around 0) gave a NaN singular value; (b) a zero singular value gave NaN/Inf singular vectors
// (division by sqrt(theta) = 0).  Witness matrices: integer-valued, rank 2 / rank 1 (found by the C16 check's obligations
// "no root of a negative number / no division by zero in the accessors", then by a concrete search over rank-deficient inputs).
#include <Eigen/Core>
#include <Spectra/contrib/PartialSVDSolver.h>
#include <iostream>
using namespace Spectra;
static int run(const Eigen::MatrixXd& A, int nc, int ncv, const char* what)
{
    PartialSVDSolver<Eigen::MatrixXd> svd(A, nc, ncv);
    int nconv = svd.compute(1000, 1e-10);
    Eigen::VectorXd s = svd.singular_values();
    Eigen::MatrixXd U = svd.matrix_U(nc), V = svd.matrix_V(nc);
    bool ok = s.allFinite() && U.allFinite() && V.allFinite() && (s.size() == 0 || s.minCoeff() >= 0);
    if (!ok)
        std::cout << "WITNESS " << what << ": nconv=" << nconv << " singular values [" << s.transpose() << "] finite(U)=" << U.allFinite() << " finite(V)=" << V.allFinite() << "\n";
    return ok ? 0 : 1;
}
int main()
{
    int bad = 0;
    Eigen::MatrixXd A1(5, 4);
    A1 << 1, 1, 4, -3, -19, -9, -16, -8, -10, -4, -4, -9, -15, -7, -12, -7, -12, -6, -12, -3;  // rank 2
    bad += run(A1, 3, 4, "5x4 integer matrix of rank 2, ncomp=3");
    Eigen::MatrixXd A2(7, 4);
    A2 << 0, 0, 0, 0, 2, 0, -8, -4, -4, 0, 16, 8, 2, 0, -8, -4, 2, 0, -8, -4, -2, 0, 8, 4, -1, 0, 4, 2;  // rank 1
    bad += run(A2, 3, 4, "7x4 integer matrix of rank 1, ncomp=3");
    bad += run(A2.transpose(), 3, 4, "4x7 integer matrix of rank 1, ncomp=3");
    Eigen::MatrixXd A3 = Eigen::MatrixXd::Zero(5, 5);
    A3(0, 0) = 3;
    A3(1, 1) = 2;
    bad += run(A3, 3, 5, "5x5 diagonal matrix of rank 2, ncomp=3");
    std::cout << (bad ? "FAIL" : "PASS") << "\n";
    return bad ? 1 : 0;
}
