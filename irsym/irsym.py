#!/usr/bin/env python3
"""irsym: symbolic execution of clang -O1 LLVM IR (textual) for small integer-argument functions (DESIGN.md 3.2).

Scope (deliberately small): straight-line / branching SSA code over i1..i64 integers, float/double/x86_fp80 arithmetic,
select, icmp/fcmp, br, phi, a single pointer-argument memory cell (load/store), calls/invokes classified as
  throw   (@__cxa_throw with a typeinfo)  -> terminal outcome throws(<typeinfo>)
  sink    (a named marker function)       -> terminal outcome reached(<name>)
  opaque  (everything else)               -> no effect, listed in the report
Anything else (indirect calls, loads feeding a branch, loops) ends the run as INCONCLUSIVE - irsym never guesses.
Two integer encodings: 'bv' (bit-vectors, exact machine semantics) and 'int' (mathematical integers with explicit mod 2^w;
nuw/nsw flags are used as the compiler-derived facts they are; and/lshr/shl with constants become mod/div/mul).
"""
import re
import subprocess
import sys
import tempfile
import os
import time


class Inconclusive(Exception):
    pass


def compile_ir(src, include_dirs, extra=()):
    out = src[:-4] + ".ll"
    cmd = ["clang++-14", "-std=c++17", "-O1", "-fno-vectorize", "-fno-slp-vectorize", "-fno-unroll-loops", "-mllvm", "-inline-threshold=100000"]
    for d in include_dirs:
        cmd += ["-I", d]
    cmd += list(extra) + ["-S", "-emit-llvm", src, "-o", out]
    p = subprocess.run(cmd, stdout=subprocess.PIPE, stderr=subprocess.STDOUT, text=True)
    if p.returncode != 0:
        raise RuntimeError("clang failed:\n" + p.stdout[-3000:])
    return out


# ------------------------------------------------------------------------------------------------ parsing
class Func:
    def __init__(self, name, args, rettype):
        self.name, self.args, self.rettype = name, args, rettype
        self.blocks = {}  # label -> list of instruction strings
        self.order = []


def parse_module(path):
    funcs = {}
    cur = None
    label = None
    with open(path) as f:
        lines = f.read().split("\n")
    # join continuation lines (invoke ... \n to label ...)
    joined = []
    for ln in lines:
        if joined and (ln.startswith("          ") or ln.strip().startswith("to label") or ln.strip().startswith("cleanup") or ln.strip().startswith("catch")):
            joined[-1] += " " + ln.strip()
        else:
            joined.append(ln)
    for ln in joined:
        m = re.match(r"define\s+(?:[\w\(\)]+\s+)*?(\S+)\s+@([\w\.\$]+)\((.*?)\)\s*(?:local_unnamed_addr)?.*\{", ln)
        if ln.startswith("define"):
            m = re.match(r"define\s+(.*?)@([\w\.\$]+)\(", ln)
            rettype = m.group(1).split()[-1]
            # balanced-parenthesis scan for the parameter list (the line may continue with a personality clause)
            i, depth, start = m.end(), 1, m.end()
            while depth > 0:
                if ln[i] == "(":
                    depth += 1
                elif ln[i] == ")":
                    depth -= 1
                i += 1
            args = []
            for a in split_args(ln[start:i - 1]):
                toks = a.split()
                if toks:
                    args.append((toks[0], toks[-1]))
            cur = Func(m.group(2), args, rettype)
            funcs[cur.name] = cur
            label = "entry"
            cur.blocks[label] = []
            cur.order.append(label)
            continue
        if cur is None:
            continue
        if ln.startswith("}"):
            cur = None
            continue
        m = re.match(r"^(\d+|[\w\.]+):", ln)
        if m:
            label = m.group(1)
            cur.blocks[label] = []
            cur.order.append(label)
            continue
        s = ln.strip()
        if not s or s.startswith(";"):
            continue
        s = re.sub(r",?\s*![\w\.]+\s+![\w\.]+", "", s)  # metadata
        s = re.sub(r"\s*#\d+$", "", s)
        cur.blocks[label].append(s)
    return funcs


def split_args(s):
    out, depth, cur = [], 0, ""
    for ch in s:
        if ch in "([{<":
            depth += 1
        elif ch in ")]}>":
            depth -= 1
        if ch == "," and depth == 0:
            out.append(cur.strip())
            cur = ""
        else:
            cur += ch
    if cur.strip():
        out.append(cur.strip())
    return out


# ------------------------------------------------------------------------------------------------ SMT terms
class Enc:
    """integer encoding: 'bv' or 'int'"""

    def __init__(self, mode):
        self.mode = mode
        self.decls = []
        self.asserts = []
        self.n = 0

    def fresh(self, bits, hint="v"):
        self.n += 1
        nm = "%s!%d" % (hint, self.n)
        if self.mode == "bv":
            self.decls.append("(declare-const |%s| (_ BitVec %d))" % (nm, bits))
        else:
            self.decls.append("(declare-const |%s| Int)" % nm)
            self.asserts.append("(and (<= 0 |%s|) (< |%s| %d))" % (nm, nm, 1 << bits))
        return "|%s|" % nm

    def const(self, v, bits):
        v &= (1 << bits) - 1
        if self.mode == "bv":
            return "(_ bv%d %d)" % (v, bits)
        return str(v)

    def signed(self, t, bits):
        if self.mode == "bv":
            return t
        return "(ite (>= %s %d) (- %s %d) %s)" % (t, 1 << (bits - 1), t, 1 << bits, t)

    def wrap(self, t, bits):
        return t if self.mode == "bv" else "(mod %s %d)" % (t, 1 << bits)

    def binop(self, op, a, b, bits, flags, bconst=None):
        if self.mode == "bv":
            m = {"add": "bvadd", "sub": "bvsub", "mul": "bvmul", "and": "bvand", "or": "bvor", "xor": "bvxor", "shl": "bvshl", "lshr": "bvlshr", "ashr": "bvashr",
                 "udiv": "bvudiv", "urem": "bvurem", "sdiv": "bvsdiv", "srem": "bvsrem"}[op]
            return "(%s %s %s)" % (m, a, b)
        nowrap = "nuw" in flags
        if op == "add":
            t = "(+ %s %s)" % (a, b)
            return t if nowrap else self.wrap(t, bits)
        if op == "sub":
            t = "(- %s %s)" % (a, b)
            return t if nowrap else self.wrap(t, bits)
        if op == "mul":
            t = "(* %s %s)" % (a, b)
            return t if nowrap else self.wrap(t, bits)
        if op == "udiv":
            return "(div %s %s)" % (a, b)
        if op == "urem":
            return "(mod %s %s)" % (a, b)
        if bconst is None:
            raise Inconclusive("int encoding needs a constant operand for %s" % op)
        c = bconst
        if op == "lshr":
            return "(div %s %d)" % (a, 1 << c)
        if op == "shl":
            t = "(* %s %d)" % (a, 1 << c)
            return t if nowrap else self.wrap(t, bits)
        if op == "and":
            if c == 0:
                return "0"
            lo = (c & -c).bit_length() - 1
            width = (c >> lo).bit_length()
            if (c >> lo) != (1 << width) - 1:
                raise Inconclusive("and with non-contiguous mask %d" % c)
            if lo == 0:
                return "(mod %s %d)" % (a, 1 << width)
            return "(* (mod (div %s %d) %d) %d)" % (a, 1 << lo, 1 << width, 1 << lo)
        raise Inconclusive("int encoding: unsupported %s" % op)

    def icmp(self, pred, a, b, bits):
        if self.mode == "bv":
            m = {"eq": "=", "ult": "bvult", "ule": "bvule", "ugt": "bvugt", "uge": "bvuge", "slt": "bvslt", "sle": "bvsle", "sgt": "bvsgt", "sge": "bvsge"}
            if pred == "ne":
                return "(not (= %s %s))" % (a, b)
            return "(%s %s %s)" % (m[pred], a, b)
        if pred in ("slt", "sle", "sgt", "sge"):
            a, b = self.signed(a, bits), self.signed(b, bits)
        m = {"eq": "=", "ult": "<", "ule": "<=", "ugt": ">", "uge": ">=", "slt": "<", "sle": "<=", "sgt": ">", "sge": ">="}
        if pred == "ne":
            return "(not (= %s %s))" % (a, b)
        return "(%s %s %s)" % (m[pred], a, b)


FP = {"float": (8, 24), "double": (11, 53), "x86_fp80": (15, 64)}


def fp_const(tok, ty):
    eb, sb = FP[ty]
    if tok.startswith("0xK"):
        v = int(tok[3:], 16)  # 80-bit: sign(1) exp(15) explicit-int(1) frac(63)
        sign, exp, mant = v >> 79, (v >> 64) & 0x7FFF, v & ((1 << 64) - 1)
        frac = mant & ((1 << 63) - 1)
        return "(fp #b%d #b%s #b%s)" % (sign, format(exp, "015b"), format(frac, "063b"))
    if tok.startswith("0x"):
        bits = int(tok[2:], 16)  # always a double bit pattern in LLVM IR
        d = "(fp #b%d #b%s #b%s)" % (bits >> 63, format((bits >> 52) & 0x7FF, "011b"), format(bits & ((1 << 52) - 1), "052b"))
        return d if ty == "double" else "((_ to_fp %d %d) RNE %s)" % (eb, sb, d)
    import struct
    bits = struct.unpack("<Q", struct.pack("<d", float(tok)))[0]
    d = "(fp #b%d #b%s #b%s)" % (bits >> 63, format((bits >> 52) & 0x7FF, "011b"), format(bits & ((1 << 52) - 1), "052b"))
    return d if ty == "double" else "((_ to_fp %d %d) RNE %s)" % (eb, sb, d)


# ------------------------------------------------------------------------------------------------ executor
class Path:
    def __init__(self):
        self.conds = []
        self.outcome = None
        self.ret = None
        self.store = None
        self.opaque = []
        self.trace = []


def run_function(funcs, fname, enc, arg_terms, sinks=("sink",), mem_cell=None, max_paths=256):
    """Explore all paths of one function. arg_terms: list of SMT terms (or None for opaque pointers).
    mem_cell: (bits, term) initial content of the single cell addressed by pointer arguments. Returns list of Path."""
    f = funcs[fname]
    paths = []
    work = [("entry", None, {}, [], mem_cell, [], [])]
    for (ty, nm), t in zip(f.args, arg_terms):
        work[0][2][nm] = (ty, t)

    def val(env, ty, tok):
        tok = tok.strip()
        if tok in env:
            return env[tok][1]
        if tok in ("true", "false"):
            return tok
        if ty in FP:
            return fp_const(tok, ty)
        if re.match(r"^-?\d+$", tok):
            bits = int(ty[1:])
            if bits == 1:
                return "true" if int(tok) & 1 else "false"
            return enc.const(int(tok), bits)
        if tok in ("null", "undef", "poison"):
            return None
        return None  # opaque (globals, constant expressions)

    while work:
        label, pred, env, conds, cell, opaque, trace = work.pop()
        if len(paths) > max_paths:
            raise Inconclusive("more than %d paths" % max_paths)
        env = dict(env)
        conds = list(conds)
        opaque = list(opaque)
        trace = trace + [label]
        if trace.count(label) > 2:
            raise Inconclusive("loop at block %s (not unrolled)" % label)
        term = False
        for ins in f.blocks[label]:
            m = re.match(r"^(%[\w\.]+) = (.*)$", ins)
            dst, rhs = (m.group(1), m.group(2)) if m else (None, ins)
            op = rhs.split()[0]
            if op in ("add", "sub", "mul", "and", "or", "xor", "shl", "lshr", "ashr", "udiv", "urem", "sdiv", "srem"):
                mm = re.match(r"^\w+((?: nuw| nsw| exact)*) (i\d+) (.+?), (.+)$", rhs)
                flags, ty, a, b = mm.group(1), mm.group(2), mm.group(3), mm.group(4)
                bits = int(ty[1:])
                ta, tb = val(env, ty, a), val(env, ty, b)
                if ta is None or tb is None:
                    env[dst] = (ty, None)
                    continue
                if bits == 1:
                    env[dst] = (ty, "(%s %s %s)" % ({"and": "and", "or": "or", "xor": "xor"}[op], ta, tb))
                    continue
                bconst = int(b) if re.match(r"^-?\d+$", b.strip()) else None
                env[dst] = (ty, enc.binop(op, ta, tb, bits, flags, bconst))
            elif op == "icmp":
                mm = re.match(r"^icmp (\w+) (\S+) (.+?), (.+)$", rhs)
                pred_, ty, a, b = mm.groups()
                if not ty.startswith("i") or ty.endswith("*"):
                    env[dst] = ("i1", None)  # pointer comparison: opaque
                    continue
                ta, tb = val(env, ty, a), val(env, ty, b)
                env[dst] = ("i1", None if ta is None or tb is None else enc.icmp(pred_, ta, tb, int(ty[1:])))
            elif op == "fcmp":
                mm = re.match(r"^fcmp (?:\w+ )*?(\w+) (float|double|x86_fp80) (.+?), (.+)$", rhs)
                pred_, ty, a, b = mm.groups()
                ta, tb = val(env, ty, a), val(env, ty, b)
                table = {"oeq": "(fp.eq %s %s)", "olt": "(fp.lt %s %s)", "ole": "(fp.leq %s %s)", "ogt": "(fp.gt %s %s)", "oge": "(fp.geq %s %s)",
                         "une": "(not (fp.eq %s %s))", "one": "(and (not (fp.isNaN %s)) (not (fp.isNaN %s)) (not (fp.eq %s %s)))", "ueq": "(or (fp.isNaN %s) (fp.isNaN %s) (fp.eq %s %s))"}
                if ta is None or tb is None or pred_ not in table:
                    env[dst] = ("i1", None)
                elif pred_ in ("one", "ueq"):
                    env[dst] = ("i1", table[pred_] % (ta, tb, ta, tb))
                else:
                    env[dst] = ("i1", table[pred_] % (ta, tb))
            elif op == "select":
                mm = re.match(r"^select i1 (.+?), (\S+) (.+?), (\S+) (.+)$", rhs)
                c, ty, a, _, b = mm.groups()
                tc, ta, tb = val(env, "i1", c), val(env, ty, a), val(env, ty, b)
                env[dst] = (ty, None if None in (tc, ta, tb) else "(ite %s %s %s)" % (tc, ta, tb))
            elif op in ("zext", "sext", "trunc"):
                mm = re.match(r"^\w+ (i\d+) (.+?) to (i\d+)$", rhs)
                t0, a, t1 = mm.groups()
                ta = val(env, t0, a)
                b0, b1 = int(t0[1:]), int(t1[1:])
                if ta is None:
                    env[dst] = (t1, None)
                elif enc.mode == "bv":
                    if b0 == 1:
                        ta = "(ite %s (_ bv1 1) (_ bv0 1))" % ta
                    if op == "trunc":
                        r = "((_ extract %d 0) %s)" % (b1 - 1, ta)
                        env[dst] = (t1, "(= %s (_ bv1 1))" % r if b1 == 1 else r)
                    else:
                        env[dst] = (t1, "((_ %s %d) %s)" % ("zero_extend" if op == "zext" else "sign_extend", b1 - b0, ta))
                else:
                    if b0 == 1:
                        ta = "(ite %s 1 0)" % ta
                    if op == "trunc":
                        env[dst] = (t1, "(mod %s %d)" % (ta, 1 << b1))
                    elif op == "zext":
                        env[dst] = (t1, ta)
                    else:
                        env[dst] = (t1, enc.wrap(enc.signed(ta, b0), b1))
            elif op in ("sitofp", "uitofp"):
                mm = re.match(r"^\w+ (i\d+) (.+?) to (\w+)$", rhs)
                t0, a, t1 = mm.groups()
                ta = val(env, t0, a)
                eb, sb = FP[t1]
                if enc.mode != "bv":
                    raise Inconclusive("int->fp conversion needs the bit-vector encoding")
                env[dst] = (t1, "((_ %s %d %d) RNE %s)" % ("to_fp" if op == "sitofp" else "to_fp_unsigned", eb, sb, ta))
            elif op in ("fadd", "fsub", "fmul", "fdiv"):
                mm = re.match(r"^\w+ (?:\w+ )*?(float|double|x86_fp80) (.+?), (.+)$", rhs)
                ty, a, b = mm.groups()
                ta, tb = val(env, ty, a), val(env, ty, b)
                env[dst] = (ty, None if ta is None or tb is None else "(fp.%s RNE %s %s)" % (op[1:], ta, tb))
            elif op in ("fpext", "fptrunc"):
                mm = re.match(r"^\w+ (\w+) (.+?) to (\w+)$", rhs)
                t0, a, t1 = mm.groups()
                ta = val(env, t0, a)
                env[dst] = (t1, None if ta is None else "((_ to_fp %d %d) RNE %s)" % (FP[t1][0], FP[t1][1], ta))
            elif op == "load":
                mm = re.match(r"^load (\S+), (\S+) (%[\w\.]+)", rhs)
                if not mm:
                    env[dst] = ("opaque", None)
                    continue
                ty, pty, ptr = mm.groups()
                if cell is not None and ptr in [a[1] for a in f.args] and ty == "i%d" % cell[0]:
                    env[dst] = (ty, cell[1])
                else:
                    env[dst] = (ty, None)  # opaque load
            elif op == "store":
                mm = re.match(r"^store (\S+) (.+?), (\S+) (%[\w\.]+)", rhs)
                if not mm:
                    continue  # store of a pointer / aggregate constant: no integer state involved
                ty, v, pty, ptr = mm.groups()
                if cell is not None and ptr in [a[1] for a in f.args] and ty == "i%d" % cell[0]:
                    tv = val(env, ty, v)
                    if tv is None:
                        raise Inconclusive("opaque value stored to the state cell")
                    cell = (cell[0], tv)
            elif op == "phi":
                mm = re.match(r"^phi (.+?) (\[.*)$", rhs)
                ty = mm.group(1)
                chosen = None
                for inc in re.findall(r"\[ (.+?), %([\w\.]+) \]", mm.group(2)):
                    if inc[1] == pred:
                        chosen = inc[0]
                if ty.startswith("i") and not ty.endswith("*") and "{" not in ty:
                    env[dst] = (ty, val(env, ty, chosen) if chosen is not None else None)
                elif ty in FP:
                    env[dst] = (ty, val(env, ty, chosen) if chosen is not None else None)
                else:
                    env[dst] = (ty, None)
            elif op == "br":
                mm = re.match(r"^br i1 (.+?), label %([\w\.]+), label %([\w\.]+)$", rhs)
                if mm:
                    c = val(env, "i1", mm.group(1))
                    if c is None:
                        raise Inconclusive("branch on an opaque value in block %s of %s: %s" % (label, fname, rhs))
                    work.append((mm.group(3), label, env, conds + ["(not %s)" % c], cell, opaque, trace))
                    work.append((mm.group(2), label, env, conds + [c], cell, opaque, trace))
                else:
                    mm = re.match(r"^br label %([\w\.]+)$", rhs)
                    work.append((mm.group(1), label, env, conds, cell, opaque, trace))
                term = True
                break
            elif op == "ret":
                p = Path()
                p.conds, p.opaque, p.trace = conds, opaque, trace
                mm = re.match(r"^ret (\S+) (.+)$", rhs)
                p.outcome = "returns"
                if mm and mm.group(1) != "void":
                    p.ret = (mm.group(1), val(env, mm.group(1), mm.group(2)))
                p.store = cell
                paths.append(p)
                term = True
                break
            elif op in ("call", "invoke", "tail", "musttail", "notail"):
                mm = re.search(r"@([\w\.\$]+)\(", rhs)
                callee = mm.group(1) if mm else None
                if callee is None:
                    raise Inconclusive("indirect call: " + rhs[:80])
                if callee == "__cxa_throw":
                    ti = re.search(r"@(_ZTI\w+)", rhs)
                    p = Path()
                    p.conds, p.opaque, p.trace = conds, opaque, trace
                    p.outcome = "throws(%s)" % (ti.group(1) if ti else "?")
                    paths.append(p)
                    term = True
                    break
                if callee in sinks:
                    p = Path()
                    p.conds, p.opaque, p.trace = conds, opaque, trace
                    p.outcome = "reached(%s)" % callee
                    paths.append(p)
                    term = True
                    break
                if not callee.startswith("llvm."):
                    opaque.append(callee)
                if dst:
                    env[dst] = ("opaque", None)
                if op == "invoke":
                    mm = re.search(r"to label %([\w\.]+) unwind label %([\w\.]+)", rhs)
                    work.append((mm.group(1), label, env, conds, cell, opaque, trace))  # callee assumed not to throw (listed)
                    term = True
                    break
            elif op in ("unreachable",):
                term = True
                break
            elif op in ("resume",):
                p = Path()
                p.conds, p.opaque, p.trace = conds, opaque, trace
                p.outcome = "resume"
                paths.append(p)
                term = True
                break
            elif op in ("alloca", "getelementptr", "bitcast", "ptrtoint", "inttoptr", "landingpad", "extractvalue", "insertvalue", "fence", "freeze"):
                if dst:
                    env[dst] = ("opaque", None)
            elif op == "switch":
                raise Inconclusive("switch not supported")
            else:
                raise Inconclusive("unsupported instruction: " + rhs[:100])
        if not term:
            raise Inconclusive("block %s falls through" % label)
    return paths


# ------------------------------------------------------------------------------------------------ solving
SOLVERS = {"z3": ["z3", "-T:%d"], "z3-new": ["z3-new", "-T:%d"], "cvc5": ["cvc5", "--tlimit=%d000"]}


def solve(text, solvers=("z3-new", "z3", "cvc5"), cap=120, logic=None):
    """returns (verdict, solver, seconds, model_text)"""
    t0 = time.time()
    for s in solvers:
        with tempfile.NamedTemporaryFile("w", suffix=".smt2", delete=False) as f:
            if s == "cvc5":
                f.write("(set-logic %s)\n(set-option :produce-models true)\n" % (logic or "ALL"))
            f.write(text)
            name = f.name
        cmd = [x % cap if "%d" in x else x for x in SOLVERS[s]] + [name]
        try:
            p = subprocess.run(cmd, stdout=subprocess.PIPE, stderr=subprocess.STDOUT, text=True, timeout=cap + 5)
            out = p.stdout
        except subprocess.TimeoutExpired:
            out = "timeout"
        os.unlink(name)
        first = out.strip().split("\n")[0].strip() if out.strip() else ""
        if first in ("sat", "unsat") and "(error" not in out.split("\n", 1)[0]:
            if first == "sat" and "(error" in out:
                continue
            return first, s, time.time() - t0, out
    return "unknown", "-", time.time() - t0, ""


def smt(enc, extra_decls, asserts, getvals=()):
    t = "\n".join(enc.decls + list(extra_decls)) + "\n"
    for a in enc.asserts + list(asserts):
        t += "(assert %s)\n" % a
    t += "(check-sat)\n"
    if getvals:
        t += "(get-value (%s))\n" % " ".join(getvals)
    return t
