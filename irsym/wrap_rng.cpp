// extern "C" wrappers around the real generator functions (compiled to LLVM IR by irsym on every run)
#include <Spectra/Util/SimpleRandom.h>
extern "C" {
__attribute__((noinline)) long w_next(long seed) { return Spectra::next_long_rand(seed); }
__attribute__((noinline)) long w_ctor(unsigned long s)
{
    Spectra::SimpleRandom<double> r(s);
    return *reinterpret_cast<long*>(&r);  // the generator state is the only member
}
__attribute__((noinline)) double w_draw_double(long* seed) { return Spectra::RandomScalar<double>::run(*seed); }
__attribute__((noinline)) float w_draw_float(long* seed) { return Spectra::RandomScalar<float>::run(*seed); }
__attribute__((noinline)) long double w_draw_longdouble(long* seed) { return Spectra::RandomScalar<long double>::run(*seed); }
__attribute__((noinline)) double w_draw_complex_re(long* seed) { return Spectra::RandomScalar<std::complex<double>>::run(*seed).real(); }
__attribute__((noinline)) double w_draw_complex_im(long* seed) { return Spectra::RandomScalar<std::complex<double>>::run(*seed).imag(); }
}
