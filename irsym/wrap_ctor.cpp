// extern "C" wrappers around the real solver constructors with a user-defined operator whose size is an argument
#include <Spectra/SymEigsSolver.h>
#include <Spectra/SymEigsShiftSolver.h>
#include <Spectra/HermEigsSolver.h>
#include <Spectra/GenEigsSolver.h>
#include <Spectra/GenEigsRealShiftSolver.h>
#include <Spectra/GenEigsComplexShiftSolver.h>
#include <Spectra/SymGEigsSolver.h>
#include <Spectra/SymGEigsShiftSolver.h>
#include <complex>
template <typename S>
struct TinyOp
{
    using Scalar = S;
    long n;
    Eigen::Index rows() const { return n; }
    Eigen::Index cols() const { return n; }
    void perform_op(const S*, S*) const {}
    void solve(const S*, S*) const {}
    void lower_triangular_solve(const S*, S*) const {}
    void upper_triangular_solve(const S*, S*) const {}
    void set_shift(const typename Eigen::NumTraits<S>::Real&) {}
    void set_shift(const typename Eigen::NumTraits<S>::Real&, const typename Eigen::NumTraits<S>::Real&) {}
};
using Op = TinyOp<double>;
// Environment stub (rvalue-operator constructor of HermEigsBase, the one the five generalized solver classes go through): the
// container the base class moves an rvalue operator into is modelled as a single inline slot, so that no heap allocation of
// libstdc++'s std::vector stands between the constructor's argument checks and the IR executor (which has no memory model).
// Only this wrapper's operator type is affected; HermEigsBase's own code is the real one.
struct RvalOp : TinyOp<double>
{
};
namespace std {
template <>
class vector<RvalOp>
{
    RvalOp slot{};

public:
    vector() = default;
    vector(vector&& o) noexcept : slot(o.slot) {}
    vector(const vector&) = default;
    template <typename... A>
    RvalOp& emplace_back(A&&... a)
    {
        slot = RvalOp(std::forward<A>(a)...);
        return slot;
    }
    RvalOp& front() { return slot; }
    const RvalOp& front() const { return slot; }
};
}  // namespace std
extern "C" void sink(void*);
extern "C" __attribute__((noinline)) void w_HermEigsBase_rvalue(long n, long nev, long ncv)
{
    RvalOp op;
    op.n = n;
    Spectra::HermEigsBase<RvalOp, Spectra::IdentityBOp> e(std::move(op), Spectra::IdentityBOp(), nev, ncv);
    sink(&e);
}
#define WRAP3(NAME, ...)                                                              \
    extern "C" __attribute__((noinline)) void NAME(long n, long nev, long ncv)        \
    {                                                                                 \
        Op op{n};                                                                     \
        __VA_ARGS__;                                                                  \
        sink(&e);                                                                     \
    }
#define WRAP4(NAME, ...)                                                                           \
    extern "C" __attribute__((noinline)) void NAME(long n, long nev, long ncv, double sigma)      \
    {                                                                                              \
        Op op{n}, bop{n};                                                                          \
        __VA_ARGS__;                                                                               \
        sink(&e);                                                                                  \
    }
WRAP3(w_SymEigsSolver, Spectra::SymEigsSolver<Op> e(op, nev, ncv))
WRAP4(w_SymEigsShiftSolver, Spectra::SymEigsShiftSolver<Op> e(op, nev, ncv, sigma))
extern "C" __attribute__((noinline)) void w_HermEigsSolver(long n, long nev, long ncv)
{
    TinyOp<std::complex<double>> op{n};
    Spectra::HermEigsSolver<TinyOp<std::complex<double>>> e(op, nev, ncv);
    sink(&e);
}
WRAP3(w_GenEigsSolver, Spectra::GenEigsSolver<Op> e(op, nev, ncv))
WRAP4(w_GenEigsRealShiftSolver, Spectra::GenEigsRealShiftSolver<Op> e(op, nev, ncv, sigma))
WRAP4(w_GenEigsComplexShiftSolver, Spectra::GenEigsComplexShiftSolver<Op> e(op, nev, ncv, sigma, sigma))
WRAP4(w_SymGEigsSolver_Cholesky, Spectra::SymGEigsSolver<Op, Op, Spectra::GEigsMode::Cholesky> e(op, bop, nev, ncv))
WRAP4(w_SymGEigsSolver_RegularInverse, Spectra::SymGEigsSolver<Op, Op, Spectra::GEigsMode::RegularInverse> e(op, bop, nev, ncv))
WRAP4(w_SymGEigsShiftSolver_ShiftInvert, Spectra::SymGEigsShiftSolver<Op, Op, Spectra::GEigsMode::ShiftInvert> e(op, bop, nev, ncv, sigma))
WRAP4(w_SymGEigsShiftSolver_Buckling, Spectra::SymGEigsShiftSolver<Op, Op, Spectra::GEigsMode::Buckling> e(op, bop, nev, ncv, sigma))
WRAP4(w_SymGEigsShiftSolver_Cayley, Spectra::SymGEigsShiftSolver<Op, Op, Spectra::GEigsMode::Cayley> e(op, bop, nev, ncv, sigma))
