// extern "C" wrappers around the real solver constructors with a user-defined operator whose size is an argument
#include <Spectra/SymEigsSolver.h>
#include <Spectra/SymEigsShiftSolver.h>
#include <Spectra/HermEigsSolver.h>
#include <Spectra/GenEigsSolver.h>
#include <Spectra/GenEigsRealShiftSolver.h>
#include <Spectra/GenEigsComplexShiftSolver.h>
#include <Spectra/SymGEigsSolver.h>
#include <Spectra/SymGEigsShiftSolver.h>
#include <complex>
template <typename S>
struct TinyOp
{
    using Scalar = S;
    long n;
    Eigen::Index rows() const { return n; }
    Eigen::Index cols() const { return n; }
    void perform_op(const S*, S*) const {}
    void solve(const S*, S*) const {}
    void lower_triangular_solve(const S*, S*) const {}
    void upper_triangular_solve(const S*, S*) const {}
    void set_shift(const typename Eigen::NumTraits<S>::Real&) {}
    void set_shift(const typename Eigen::NumTraits<S>::Real&, const typename Eigen::NumTraits<S>::Real&) {}
};
using Op = TinyOp<double>;
extern "C" void sink(void*);
#define WRAP3(NAME, ...)                                                              \
    extern "C" __attribute__((noinline)) void NAME(long n, long nev, long ncv)        \
    {                                                                                 \
        Op op{n};                                                                     \
        __VA_ARGS__;                                                                  \
        sink(&e);                                                                     \
    }
#define WRAP4(NAME, ...)                                                                           \
    extern "C" __attribute__((noinline)) void NAME(long n, long nev, long ncv, double sigma)      \
    {                                                                                              \
        Op op{n}, bop{n};                                                                          \
        __VA_ARGS__;                                                                               \
        sink(&e);                                                                                  \
    }
WRAP3(w_SymEigsSolver, Spectra::SymEigsSolver<Op> e(op, nev, ncv))
WRAP4(w_SymEigsShiftSolver, Spectra::SymEigsShiftSolver<Op> e(op, nev, ncv, sigma))
extern "C" __attribute__((noinline)) void w_HermEigsSolver(long n, long nev, long ncv)
{
    TinyOp<std::complex<double>> op{n};
    Spectra::HermEigsSolver<TinyOp<std::complex<double>>> e(op, nev, ncv);
    sink(&e);
}
WRAP3(w_GenEigsSolver, Spectra::GenEigsSolver<Op> e(op, nev, ncv))
WRAP4(w_GenEigsRealShiftSolver, Spectra::GenEigsRealShiftSolver<Op> e(op, nev, ncv, sigma))
WRAP4(w_GenEigsComplexShiftSolver, Spectra::GenEigsComplexShiftSolver<Op> e(op, nev, ncv, sigma, sigma))
WRAP4(w_SymGEigsSolver_Cholesky, Spectra::SymGEigsSolver<Op, Op, Spectra::GEigsMode::Cholesky> e(op, bop, nev, ncv))
WRAP4(w_SymGEigsSolver_RegularInverse, Spectra::SymGEigsSolver<Op, Op, Spectra::GEigsMode::RegularInverse> e(op, bop, nev, ncv))
WRAP4(w_SymGEigsShiftSolver_ShiftInvert, Spectra::SymGEigsShiftSolver<Op, Op, Spectra::GEigsMode::ShiftInvert> e(op, bop, nev, ncv, sigma))
WRAP4(w_SymGEigsShiftSolver_Buckling, Spectra::SymGEigsShiftSolver<Op, Op, Spectra::GEigsMode::Buckling> e(op, bop, nev, ncv, sigma))
WRAP4(w_SymGEigsShiftSolver_Cayley, Spectra::SymGEigsShiftSolver<Op, Op, Spectra::GEigsMode::Cayley> e(op, bop, nev, ncv, sigma))
