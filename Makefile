# Builds the framework support object (offline, from files on disk only). The harnesses themselves are compiled by
# bin/check on every run against /repo's current working tree; irsym is a Python script and needs no build step.
CXX ?= g++
CXXFLAGS = -std=c++17 -O2 -g -fPIC -Wall -Wno-unused-function
BUILD = build

all: $(BUILD)/symx.o

$(BUILD)/symx.o: symx/symx.cpp symx/symx.h
	@mkdir -p $(BUILD)
	$(CXX) $(CXXFLAGS) -c symx/symx.cpp -o $@

clean:
	rm -rf $(BUILD)
