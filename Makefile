# Builds the framework support objects (offline, from files on disk only).
CXX ?= g++
CXXFLAGS = -std=c++17 -O2 -g -fPIC -Wall -Wno-unused-function
BUILD = build

all: $(BUILD)/symx.o $(BUILD)/irsym

$(BUILD)/symx.o: symx/symx.cpp symx/symx.h
	@mkdir -p $(BUILD)
	$(CXX) $(CXXFLAGS) -c symx/symx.cpp -o $@

$(BUILD)/irsym: irsym/irsym.cpp
	@mkdir -p $(BUILD)
	@if [ -f irsym/irsym.cpp ]; then $(CXX) -std=c++17 -O2 -g irsym/irsym.cpp -o $@ `llvm-config-14 --cxxflags --ldflags --libs core irreader support` -lz3 -fexceptions; fi

irsym/irsym.cpp:
	@true

clean:
	rm -rf $(BUILD)
