// symx core: terms, explorer, solver pool, runner.  See symx.h / DESIGN.md 3.1, 3.3.
#include "symx.h"

#include <cxxabi.h>
#include <execinfo.h>
#include <fcntl.h>
#include <poll.h>
#include <signal.h>
#include <sys/socket.h>
#include <sys/stat.h>
#include <sys/time.h>
#include <sys/wait.h>
#include <unistd.h>

#include <algorithm>
#include <cassert>
#include <chrono>
#include <cstdio>
#include <cstdlib>
#include <cstring>
#include <deque>
#include <fstream>
#include <iostream>
#include <memory>
#include <regex>
#include <set>
#include <unordered_map>

namespace sym {

// ================================================================================================
// global per-path state
namespace {

struct Decision
{
    bool outcome;
    bool forced;
    unsigned hash;
};

struct Constraint
{
    z3::expr e;
    std::vector<int> syms;
    bool linear;
    int kind;  // 0 branch / assumption, 1 definedness (divisor != 0, radicand >= 0), 2 definition of a sqrt symbol
};

struct ObRec
{
    std::string name, verdict, solver, scope, model, detail;
    double secs;
};
struct EvRec
{
    std::string kind, verdict, site, scope, model;
};

struct PathState
{
    std::unique_ptr<z3::context> zctx;
    std::vector<z3::expr> terms;  // index = Real::id (entry 0 unused)
    std::vector<uint8_t> signs;
    std::vector<int> sq_of;                        // term id -> id of x when term == x*x (0 otherwise)
    std::unordered_map<unsigned, int> sqrt_memo;   // ast id of radicand -> term id of root
    std::unordered_map<uint64_t, int> num_memo;    // double bits -> index into numerals
    std::vector<z3::expr> numerals;
    std::vector<std::string> sym_names;
    std::unordered_map<unsigned, int> sym_index;   // ast id of the constant -> symbol index
    std::vector<z3::expr> sym_exprs;
    std::vector<int> uf;                           // union-find over symbols
    std::vector<Constraint> pc;
    // caches keyed by z3 AST id; the expr is stored too so that the AST stays alive and its id cannot be recycled
    std::unordered_map<unsigned, std::pair<z3::expr, std::vector<int>>> syms_cache;
    std::unordered_map<unsigned, std::pair<z3::expr, bool>> lin_cache;
    // ast id of a (simplified) condition -> outcome already on the path.  The expression is kept alive next to its id: z3 recycles the
    // ids of dead ASTs, and how soon depends on the in-process solver's activity (timeouts under load), which made replays of a
    // decision prefix diverge once in a while
    std::unordered_map<unsigned, bool> decided;
    std::vector<z3::expr> decided_keep;
    std::vector<Decision> decisions;
    std::string prefix;  // decisions to replay ('0'/'1')
    std::vector<std::string> new_prefixes;
    std::vector<ObRec> obs;
    std::vector<EvRec> events;
    std::vector<std::pair<std::string, std::string>> notes;
    std::vector<std::pair<std::string, std::string>> witnesses;
    int n_assumed_def = 0;
    int n_unknown_feas = 0;
    long queries = 0, queries_inproc = 0, queries_cli = 0, cache_hits = 0;
    double solver_secs = 0;
    int fresh_counter = 0;
};

PathState* P = nullptr;
Def g_def = Def::Check;
std::vector<std::string> g_scope;
Profile g_profile = Profile::Double;
int g_max_decisions = 400;
double g_cap_first = 10.0, g_cap_portfolio = 60.0, g_cap_feas = 3.0;
bool g_concrete = false;
std::map<std::string, double> g_model;
std::string g_tmpdir;
std::unordered_map<std::string, std::pair<std::string, std::string>> g_query_cache;  // text -> (verdict, model)
bool g_verbose = false;
std::string g_taint_prefix, g_taint_name;

double now()
{
    struct timeval tv;
    gettimeofday(&tv, nullptr);
    return tv.tv_sec + 1e-6 * tv.tv_usec;
}

std::string scope_str()
{
    std::string s;
    for (size_t i = 0; i < g_scope.size(); i++)
    {
        if (i)
            s += "/";
        s += g_scope[i];
    }
    return s;
}

std::string sanitize(const std::string& s)
{
    std::string r = s;
    for (char& ch : r)
        if (ch == '\t' || ch == '\n' || ch == '\r')
            ch = ' ';
    return r;
}

// ------------------------------------------------------------------------------------------------
// exact decimal rational string of a double: "num/den"
std::string dec_double(const std::string& s)  // decimal string * 2
{
    std::string r;
    r.reserve(s.size() + 1);
    int carry = 0;
    for (int i = (int) s.size() - 1; i >= 0; i--)
    {
        int d = (s[i] - '0') * 2 + carry;
        r.push_back(char('0' + d % 10));
        carry = d / 10;
    }
    if (carry)
        r.push_back(char('0' + carry));
    std::reverse(r.begin(), r.end());
    return r;
}
const std::string& pow2_str(int k)
{
    static std::vector<std::string> tab(1, "1");
    while ((int) tab.size() <= k)
        tab.push_back(dec_double(tab.back()));
    return tab[k];
}
std::string rational_of(double v)
{
    if (v == 0)
        return "0";
    bool neg = v < 0;
    if (neg)
        v = -v;
    int e;
    double m = std::frexp(v, &e);  // v = m * 2^e, 0.5 <= m < 1
    uint64_t mi = (uint64_t) std::ldexp(m, 53);
    e -= 53;
    while ((mi & 1) == 0)
    {
        mi >>= 1;
        e++;
    }
    std::string num = std::to_string(mi);
    std::string r;
    if (e >= 0)
    {
        for (int i = 0; i < e; i++)
            num = dec_double(num);
        r = num;
    }
    else
        r = num + "/" + pow2_str(-e);
    return neg ? "-" + r : r;
}

uint64_t bits_of(double v)
{
    uint64_t b;
    std::memcpy(&b, &v, 8);
    return b;
}

z3::expr numeral(double v)
{
    if (!std::isfinite(v))
    {
        P->events.push_back({"nonfinite-concrete", "sat", "", scope_str(), ""});
        throw Unsupported("non-finite concrete value entered a symbolic term");
    }
    if (v == 0)
        v = 0.0;  // merge -0.0
    uint64_t b = bits_of(v);
    auto it = P->num_memo.find(b);
    if (it != P->num_memo.end())
        return P->numerals[it->second];
    z3::expr e = ctx().real_val(rational_of(v).c_str());
    P->num_memo[b] = (int) P->numerals.size();
    P->numerals.push_back(e);
    return e;
}

const std::vector<int>& syms_of(const z3::expr& e);

// sign bits of a numeral term
uint8_t sign_of_numeral(const z3::expr& v)
{
    std::string str = Z3_get_numeral_string(ctx(), v);
    bool neg = !str.empty() && str[0] == '-';
    bool zero = true;
    for (char ch : str)
        if (ch >= '1' && ch <= '9')
            zero = false;
    if (zero)
        return NONNEG | NONPOS;
    return (neg ? NONPOS : NONNEG) | NONZERO;
}

bool g_normalize = false;  // polynomial normal form (sum of monomials) for every new term: lets exact cancellations show

Real mk(const z3::expr& e0, uint8_t sign, int sq = 0)
{
    z3::expr e = e0;
    if (g_normalize && !e.is_numeral())
    {
        z3::params p(ctx());
        p.set("som", true);
        p.set("hoist_mul", false);
        e = e.simplify(p);
    }
    // constant folding: a term without symbols is kept as an exact rational numeral
    if (!e.is_numeral() && syms_of(e).empty())
    {
        z3::expr v = e.simplify();
        if (v.is_numeral())
            e = v;
    }
    if (e.is_numeral())
        sign = sign_of_numeral(e);
    P->terms.push_back(e);
    P->signs.push_back(sign);
    P->sq_of.push_back(sq);
    Real r;
    r.c = std::numeric_limits<double>::quiet_NaN();
    r.id = (int) P->terms.size() - 1;
    return r;
}

uint8_t sign_of_double(double v)
{
    uint8_t s = 0;
    if (v >= 0)
        s |= NONNEG;
    if (v <= 0)
        s |= NONPOS;
    if (v != 0)
        s |= NONZERO;
    return s;
}

uint8_t sign_neg(uint8_t s)
{
    uint8_t r = s & NONZERO;
    if (s & NONNEG)
        r |= NONPOS;
    if (s & NONPOS)
        r |= NONNEG;
    return r;
}
uint8_t sign_add(uint8_t a, uint8_t b)
{
    uint8_t r = 0;
    if ((a & NONNEG) && (b & NONNEG))
    {
        r |= NONNEG;
        if ((a & NONZERO) || (b & NONZERO))
            r |= NONZERO;
    }
    if ((a & NONPOS) && (b & NONPOS))
    {
        r |= NONPOS;
        if ((a & NONZERO) || (b & NONZERO))
            r |= NONZERO;
    }
    return r;
}
uint8_t sign_mul(uint8_t a, uint8_t b)
{
    uint8_t r = 0;
    if ((a & NONZERO) && (b & NONZERO))
        r |= NONZERO;
    bool az = (a & NONNEG) && (a & NONPOS), bz = (b & NONNEG) && (b & NONPOS);
    if (az || bz)
        return NONNEG | NONPOS;
    if (((a & NONNEG) && (b & NONNEG)) || ((a & NONPOS) && (b & NONPOS)))
        r |= NONNEG;
    if (((a & NONNEG) && (b & NONPOS)) || ((a & NONPOS) && (b & NONNEG)))
        r |= NONPOS;
    return r;
}

// ------------------------------------------------------------------------------------------------
// symbol sets / linearity / slicing
const std::vector<int>& syms_of(const z3::expr& e)
{
    unsigned id = Z3_get_ast_id(ctx(), e);
    auto it = P->syms_cache.find(id);
    if (it != P->syms_cache.end())
        return it->second.second;
    std::vector<int> r;
    if (e.is_app())
    {
        if (e.num_args() == 0)
        {
            auto si = P->sym_index.find(id);
            if (si != P->sym_index.end())
                r.push_back(si->second);
        }
        else
        {
            for (unsigned i = 0; i < e.num_args(); i++)
            {
                const std::vector<int>& s = syms_of(e.arg(i));
                std::vector<int> m;
                std::set_union(r.begin(), r.end(), s.begin(), s.end(), std::back_inserter(m));
                r.swap(m);
            }
        }
    }
    return P->syms_cache.emplace(id, std::make_pair(e, std::move(r))).first->second.second;
}

bool is_linear(const z3::expr& e)
{
    unsigned id = Z3_get_ast_id(ctx(), e);
    auto it = P->lin_cache.find(id);
    if (it != P->lin_cache.end())
        return it->second.second;
    bool lin = true;
    if (e.is_app() && e.num_args() > 0)
    {
        Z3_decl_kind k = e.decl().decl_kind();
        if (k == Z3_OP_MUL)
        {
            int nonnum = 0;
            for (unsigned i = 0; i < e.num_args(); i++)
                if (!e.arg(i).is_numeral())
                    nonnum++;
            if (nonnum > 1)
                lin = false;
        }
        else if (k == Z3_OP_DIV)
        {
            if (!e.arg(1).is_numeral())
                lin = false;
        }
        else if (k == Z3_OP_POWER || k == Z3_OP_IDIV || k == Z3_OP_MOD || k == Z3_OP_REM)
            lin = false;
        if (lin)
            for (unsigned i = 0; i < e.num_args(); i++)
                if (!is_linear(e.arg(i)))
                {
                    lin = false;
                    break;
                }
    }
    P->lin_cache.emplace(id, std::make_pair(e, lin));
    return lin;
}

int uf_find(int x)
{
    while (P->uf[x] != x)
    {
        P->uf[x] = P->uf[P->uf[x]];
        x = P->uf[x];
    }
    return x;
}

void add_constraint(const z3::expr& e, int kind = 0)
{
    Constraint c{e, syms_of(e), is_linear(e), kind};
    for (size_t i = 1; i < c.syms.size(); i++)
    {
        int a = uf_find(c.syms[0]), b = uf_find(c.syms[i]);
        if (a != b)
            P->uf[a] = b;
    }
    P->pc.push_back(c);
}

// constraints of the path condition connected (through shared symbols) to q
std::vector<const Constraint*> slice_for(const z3::expr& q)
{
    std::set<int> roots;
    for (int s : syms_of(q))
        roots.insert(uf_find(s));
    std::vector<const Constraint*> r;
    for (const Constraint& c : P->pc)
    {
        if (c.syms.empty())
            continue;
        if (roots.count(uf_find(c.syms[0])))
            r.push_back(&c);
    }
    return r;
}

// ------------------------------------------------------------------------------------------------
// model parsing (s-expressions from get-value)
struct Sx
{
    std::string atom;
    std::vector<Sx> kids;
    bool is_atom = false;
};
Sx parse_sx(const std::string& s, size_t& i)
{
    while (i < s.size() && isspace((unsigned char) s[i]))
        i++;
    Sx r;
    if (i < s.size() && s[i] == '(')
    {
        i++;
        while (true)
        {
            while (i < s.size() && isspace((unsigned char) s[i]))
                i++;
            if (i >= s.size())
                break;
            if (s[i] == ')')
            {
                i++;
                break;
            }
            r.kids.push_back(parse_sx(s, i));
        }
    }
    else
    {
        r.is_atom = true;
        size_t j = i;
        if (i < s.size() && s[i] == '|')
        {
            j = s.find('|', i + 1);
            r.atom = s.substr(i + 1, j - i - 1);
            i = j + 1;
        }
        else
        {
            while (j < s.size() && !isspace((unsigned char) s[j]) && s[j] != '(' && s[j] != ')')
                j++;
            r.atom = s.substr(i, j - i);
            i = j;
        }
    }
    return r;
}
double eval_sx(const Sx& x)
{
    if (x.is_atom)
    {
        std::string a = x.atom;
        if (!a.empty() && a.back() == '?')
            a.pop_back();
        char* end = nullptr;
        double v = std::strtod(a.c_str(), &end);
        if (end == a.c_str())
            return std::numeric_limits<double>::quiet_NaN();
        return v;
    }
    if (x.kids.empty() || !x.kids[0].is_atom)
        return std::numeric_limits<double>::quiet_NaN();
    const std::string& op = x.kids[0].atom;
    if (op == "-")
    {
        if (x.kids.size() == 2)
            return -eval_sx(x.kids[1]);
        double v = eval_sx(x.kids[1]);
        for (size_t i = 2; i < x.kids.size(); i++)
            v -= eval_sx(x.kids[i]);
        return v;
    }
    if (op == "/")
        return eval_sx(x.kids[1]) / eval_sx(x.kids[2]);
    if (op == "+")
    {
        double v = 0;
        for (size_t i = 1; i < x.kids.size(); i++)
            v += eval_sx(x.kids[i]);
        return v;
    }
    if (op == "*")
    {
        double v = 1;
        for (size_t i = 1; i < x.kids.size(); i++)
            v *= eval_sx(x.kids[i]);
        return v;
    }
    return std::numeric_limits<double>::quiet_NaN();
}

std::string json_escape(const std::string& s)
{
    std::string r;
    for (char ch : s)
    {
        switch (ch)
        {
            case '"': r += "\\\""; break;
            case '\\': r += "\\\\"; break;
            case '\n': r += "\\n"; break;
            case '\t': r += "\\t"; break;
            case '\r': r += "\\r"; break;
            default:
                if ((unsigned char) ch < 0x20)
                {
                    char buf[8];
                    snprintf(buf, sizeof buf, "\\u%04x", ch);
                    r += buf;
                }
                else
                    r += ch;
        }
    }
    return r;
}

std::string fmt_double(double v)
{
    if (!std::isfinite(v))
        return "null";
    char buf[40];
    snprintf(buf, sizeof buf, "%.17g", v);
    return buf;
}

std::string model_json(const std::map<std::string, double>& m)
{
    std::string s = "{";
    bool first = true;
    for (auto& kv : m)
    {
        if (!first)
            s += ",";
        first = false;
        s += "\"" + json_escape(kv.first) + "\":" + fmt_double(kv.second);
    }
    return s + "}";
}

// ------------------------------------------------------------------------------------------------
// solver back ends
std::string run_cmd(const std::string& cmd)
{
    std::string out;
    FILE* f = popen(cmd.c_str(), "r");
    if (!f)
        return "";
    char buf[4096];
    size_t n;
    while ((n = fread(buf, 1, sizeof buf, f)) > 0)
        out.append(buf, n);
    pclose(f);
    return out;
}

void ensure_tmpdir()
{
    if (!g_tmpdir.empty())
        return;
    const char* base = getenv("SYMX_TMP");
    std::string t = std::string(base ? base : "/tmp") + "/symx.XXXXXX";
    std::vector<char> buf(t.begin(), t.end());
    buf.push_back(0);
    if (!mkdtemp(buf.data()))
    {
        perror("mkdtemp");
        exit(3);
    }
    g_tmpdir = buf.data();
}
void cleanup_tmpdir()
{
    if (g_tmpdir.empty())
        return;
    std::string cmd = "rm -rf '" + g_tmpdir + "'";
    if (system(cmd.c_str()))
    {
    }
    g_tmpdir.clear();
}

// A z3 process kept alive per worker ("z3 -in"): process start-up, not solving, dominates thousands of small NRA queries.
// Each query is followed by (reset); a query that does not answer within its cap gets the process killed (hard cap).
struct PersistentZ3
{
    pid_t pid = -1;
    int to_fd = -1, from_fd = -1;
    std::string buf;
    bool start()
    {
        int in_pipe[2], out_pipe[2];
        if (pipe(in_pipe) || pipe(out_pipe))
            return false;
        pid = fork();
        if (pid == 0)
        {
            dup2(in_pipe[0], 0);
            dup2(out_pipe[1], 1);
            dup2(out_pipe[1], 2);
            close(in_pipe[0]);
            close(in_pipe[1]);
            close(out_pipe[0]);
            close(out_pipe[1]);
            execlp("z3", "z3", "-in", "-smt2", "-memory:6000", (char*) nullptr);
            _exit(127);
        }
        close(in_pipe[0]);
        close(out_pipe[1]);
        to_fd = in_pipe[1];
        from_fd = out_pipe[0];
        buf.clear();
        return pid > 0;
    }
    void stop()
    {
        if (pid > 0)
        {
            kill(pid, SIGKILL);
            waitpid(pid, nullptr, 0);
            close(to_fd);
            close(from_fd);
        }
        pid = -1;
    }
    // returns false on timeout / failure (process is then stopped)
    bool query(const std::string& text, double cap, std::string& out)
    {
        if (pid <= 0 && !start())
            return false;
        static const char* END = "symx-end-of-answer";
        std::string msg = text + "(echo \"" + END + "\")\n(reset)\n";
        size_t off = 0;
        while (off < msg.size())
        {
            ssize_t w = write(to_fd, msg.data() + off, msg.size() - off);
            if (w <= 0)
            {
                stop();
                return false;
            }
            off += w;
        }
        double deadline = now() + cap;
        buf.clear();
        while (true)
        {
            size_t e = buf.find(END);
            if (e != std::string::npos)
            {
                out = buf.substr(0, e);
                // strip the quote that precedes the echoed marker in some z3 versions
                while (!out.empty() && (out.back() == '"' || out.back() == '\n' || out.back() == ' '))
                    out.pop_back();
                out += "\n";
                return true;
            }
            double left = deadline - now();
            if (left <= 0)
            {
                stop();
                return false;
            }
            pollfd pf{from_fd, POLLIN, 0};
            int pr = poll(&pf, 1, (int) std::min(1000.0, left * 1000 + 1));
            if (pr < 0)
            {
                stop();
                return false;
            }
            if (pr == 0)
                continue;
            char tmp[65536];
            ssize_t n = read(from_fd, tmp, sizeof tmp);
            if (n <= 0)
            {
                stop();
                return false;
            }
            buf.append(tmp, n);
        }
    }
};
PersistentZ3 g_z3;

struct SolveResult
{
    std::string verdict;  // sat / unsat / unknown
    std::string solver;
    std::map<std::string, double> model;
    double secs = 0;
};

void parse_cli_output(const std::string& out, SolveResult& r, const std::vector<int>& syms)
{
    r.verdict = "unknown";
    // the first output line is the check-sat answer only if nothing went wrong before it; an "(error" that
    // precedes the answer makes the whole query inconclusive.  After "unsat" the get-value error is expected.
    size_t nl = out.find('\n');
    std::string first = out.substr(0, nl == std::string::npos ? out.size() : nl);
    while (!first.empty() && isspace((unsigned char) first.back()))
        first.pop_back();
    if (first == "unsat")
    {
        r.verdict = "unsat";
        return;
    }
    if (first != "sat")
        return;
    if (out.find("(error") != std::string::npos)
        return;
    r.verdict = "sat";
    if (nl == std::string::npos)
        return;
    size_t i = nl + 1;
    Sx m = parse_sx(out, i);
    for (const Sx& kv : m.kids)
    {
        if (kv.kids.size() != 2 || !kv.kids[0].is_atom)
            continue;
        r.model[kv.kids[0].atom] = eval_sx(kv.kids[1]);
    }
    (void) syms;
}

SolveResult solve(const std::vector<z3::expr>& cons, bool want_model, bool feasibility_only = false)
{
    SolveResult r;
    double t0 = now();
    P->queries++;
    bool linear = true;
    std::vector<int> syms;
    for (const z3::expr& e : cons)
    {
        if (!is_linear(e))
            linear = false;
        const std::vector<int>& s = syms_of(e);
        std::vector<int> m;
        std::set_union(syms.begin(), syms.end(), s.begin(), s.end(), std::back_inserter(m));
        syms.swap(m);
    }
    if (linear)
    {
        P->queries_inproc++;
        z3::solver s(ctx(), "QF_LRA");
        z3::params p(ctx());
        p.set("timeout", 5000u);
        s.set(p);
        for (const z3::expr& e : cons)
            s.add(e);
        z3::check_result cr = s.check();
        r.solver = "z3lib-4.8.12(linear,in-process)";
        if (cr == z3::unsat)
            r.verdict = "unsat";
        else if (cr == z3::sat)
        {
            r.verdict = "sat";
            if (want_model)
            {
                z3::model m = s.get_model();
                for (int si : syms)
                {
                    z3::expr v = m.eval(P->sym_exprs[si], true);
                    double d = std::numeric_limits<double>::quiet_NaN();
                    if (v.is_numeral())
                    {
                        std::string ds = v.get_decimal_string(20);
                        if (!ds.empty() && ds.back() == '?')
                            ds.pop_back();
                        d = std::strtod(ds.c_str(), nullptr);
                    }
                    r.model[P->sym_names[si]] = d;
                }
            }
        }
        else
            r.verdict = "unknown";
        r.secs = now() - t0;
        P->solver_secs += r.secs;
        if (r.verdict != "unknown")
            return r;
        // fall through to the process portfolio
    }
    // process solvers
    P->queries_cli++;
    ensure_tmpdir();
    std::string body;
    {
        z3::solver s(ctx());
        for (const z3::expr& e : cons)
            s.add(e);
        body = s.to_smt2();
    }
    // strip the trailing (check-sat) so that we can add get-value
    size_t cs = body.rfind("(check-sat)");
    if (cs != std::string::npos)
        body = body.substr(0, cs);
    std::string getv = "(check-sat)\n";
    if (want_model && !syms.empty())
    {
        getv += "(get-value (";
        for (int si : syms)
            getv += "|" + P->sym_names[si] + "| ";
        getv += "))\n";
    }
    auto cit = g_query_cache.find(body);
    if (cit != g_query_cache.end() && (!want_model || cit->second.first != "sat") && (feasibility_only || cit->second.first != "unknown" || true))
    {
        P->cache_hits++;
        r.verdict = cit->second.first;
        r.solver = "cache";
        r.secs = now() - t0;
        return r;
    }
    std::string file = g_tmpdir + "/q.smt2";
    struct Attempt
    {
        const char* name;
        std::string head;
        std::string cmd;
        double cap;
    };
    char capbuf[64];
    std::vector<Attempt> attempts;
    snprintf(capbuf, sizeof capbuf, "%d", (int) std::ceil(g_cap_first));
    attempts.push_back({"z3-4.8.12", "(set-option :pp.decimal true)\n(set-option :pp.decimal_precision 25)\n",
                        std::string("timeout -k 1 ") + capbuf + " z3 -memory:6000 " + file + " 2>&1", g_cap_first});
    snprintf(capbuf, sizeof capbuf, "%d", (int) std::ceil(g_cap_portfolio));
    attempts.push_back({"z3-5.1.0", "(set-option :pp.decimal true)\n(set-option :pp.decimal_precision 25)\n",
                        std::string("timeout -k 1 ") + capbuf + " z3-new -memory:6000 " + file + " 2>&1", g_cap_portfolio});
    attempts.push_back({"cvc5-1.0.3", "(set-logic QF_NRA)\n(set-option :produce-models true)\n",
                        std::string("timeout -k 1 ") + capbuf + " cvc5 " + file + " 2>&1", g_cap_portfolio});
    if (feasibility_only)
    {
        // branch-feasibility questions get one short attempt; "unknown" means both sides are explored
        snprintf(capbuf, sizeof capbuf, "%d", (int) std::ceil(g_cap_feas));
        attempts.clear();
        attempts.push_back({"z3-4.8.12", "", std::string("timeout -k 1 ") + capbuf + " z3 -memory:6000 " + file + " 2>&1", g_cap_feas});
    }
    bool first = true;
    for (const Attempt& a : attempts)
    {
        if (a.cap <= 0)
            continue;
        std::string out;
        if (first && !getenv("SYMX_NO_PERSISTENT"))
        {
            // first attempt: the worker's persistent z3 4.8.12 process
            first = false;
            std::string text = "(set-option :pp.decimal true)\n(set-option :pp.decimal_precision 25)\n" + body + getv;
            if (!g_z3.query(text, a.cap, out))
                out = "timeout";
        }
        else
        {
            first = false;
            {
                std::ofstream f(file);
                f << a.head << body << getv;
            }
            out = run_cmd(a.cmd);
        }
        parse_cli_output(out, r, syms);
        r.solver = a.name;
        if (g_verbose)
            fprintf(stderr, "[cli %s] %s (%.2fs)\n", a.name, r.verdict.c_str(), now() - t0);
        if (r.verdict != "unknown")
            break;
    }
    if (const char* keep = getenv("SYMX_KEEP_UNKNOWN"))
    {
        if (r.verdict == "unknown" || (getenv("SYMX_KEEP_SAT") && r.verdict == "sat" && want_model))
        {
            static int k = 0;
            std::string dst = std::string(keep) + "/unknown_" + std::to_string(getpid()) + "_" + std::to_string(k++) + ".smt2";
            std::ofstream f(dst);
            f << "(set-option :pp.decimal true)\n" << body << getv;
        }
    }
    if (r.verdict != "unknown" || !feasibility_only)
        g_query_cache[body] = {r.verdict, ""};
    r.secs = now() - t0;
    P->solver_secs += r.secs;
    return r;
}

std::vector<z3::expr> with_slice(const z3::expr& q)
{
    std::vector<z3::expr> cons;
    for (const Constraint* c : slice_for(q))
        cons.push_back(c->e);
    cons.push_back(q);
    return cons;
}

std::string site_from_backtrace()
{
    void* frames[48];
    int n = backtrace(frames, 48);
    char** syms = backtrace_symbols(frames, n);
    std::string result;
    if (!syms)
        return result;
    for (int i = 0; i < n; i++)
    {
        std::string s = syms[i];
        size_t l = s.find('('), p = s.find('+', l == std::string::npos ? 0 : l);
        if (l == std::string::npos || p == std::string::npos || p <= l + 1)
            continue;
        std::string mangled = s.substr(l + 1, p - l - 1);
        int status = 0;
        char* dem = abi::__cxa_demangle(mangled.c_str(), nullptr, nullptr, &status);
        std::string d = (status == 0 && dem) ? dem : mangled;
        free(dem);
        size_t sp = d.find("Spectra::");
        if (sp != std::string::npos)
        {
            // strip template arguments and parameters for a stable, short site name
            std::string out;
            int depth = 0;
            for (size_t k = sp; k < d.size(); k++)
            {
                char ch = d[k];
                if (ch == '<')
                    depth++;
                else if (ch == '>')
                    depth--;
                else if (depth == 0)
                {
                    if (ch == '(')
                        break;
                    out += ch;
                }
            }
            result = out;
            break;
        }
    }
    free(syms);
    return result;
}

}  // namespace

// ================================================================================================
z3::context& ctx() { return *P->zctx; }

double Real::value() const
{
    if (id != 0)
        throw Unsupported("concrete value requested from a symbolic Real");
    return c;
}
uint8_t Real::sign() const { return id ? P->signs[id] : sign_of_double(c); }
z3::expr Real::term() const { return id ? P->terms[id] : numeral(c); }
Real::operator bool() const { return *this != Real(0); }

Real from_expr(const z3::expr& e, uint8_t sign) { return mk(e, sign); }
Real exact(double v) { return mk(numeral(v), 0); }
Real rational(long p, long q) { return mk(ctx().real_val((int64_t) p, (int64_t) q), 0); }
Real exact_mul(const Real& a, const Real& b) { return mk((a.term() * b.term()).simplify(), sign_mul(a.sign(), b.sign())); }

Real Real::operator-() const
{
    if (!id)
        return Real(-c);
    return mk(-P->terms[id], sign_neg(P->signs[id]));
}

Real operator+(const Real& a, const Real& b)
{
    if (!a.id && !b.id)
        return Real(a.c + b.c);
    if (!a.id && a.c == 0)
        return b;
    if (!b.id && b.c == 0)
        return a;
    return mk(a.term() + b.term(), sign_add(a.sign(), b.sign()));
}
Real operator-(const Real& a, const Real& b)
{
    if (!a.id && !b.id)
        return Real(a.c - b.c);
    if (!b.id && b.c == 0)
        return a;
    if (!a.id && a.c == 0)
        return -b;
    if (a.id && a.id == b.id)
        return Real(0);
    return mk(a.term() - b.term(), sign_add(a.sign(), sign_neg(b.sign())));
}
Real operator*(const Real& a, const Real& b)
{
    if (!a.id && !b.id)
        return Real(a.c * b.c);
    if ((!a.id && a.c == 0) || (!b.id && b.c == 0))
        return Real(0);
    if (!a.id && a.c == 1)
        return b;
    if (!b.id && b.c == 1)
        return a;
    if (!a.id && a.c == -1)
        return -b;
    if (!b.id && b.c == -1)
        return -a;
    bool same = a.id && b.id && (a.id == b.id || Z3_get_ast_id(ctx(), P->terms[a.id]) == Z3_get_ast_id(ctx(), P->terms[b.id]));
    uint8_t s = sign_mul(a.sign(), b.sign());
    if (same)
        s = NONNEG | (a.sign() & NONZERO);
    return mk(a.term() * b.term(), s, same ? a.id : 0);
}

static void definedness_nonzero(const Real& b, const char* kind)
{
    if (!b.id || (b.sign() & NONZERO) || g_def == Def::Ignore)
        return;
    z3::expr z = b.term() == ctx().real_val(0);
    if (g_def == Def::Check)
    {
        z3::expr zs = z.simplify();
        if (zs.is_false())
            return;
        SolveResult r = solve(with_slice(zs), true);
        if (r.verdict != "unsat")
            P->events.push_back({kind, r.verdict, site_from_backtrace(), scope_str(), model_json(r.model)});
        if (r.verdict == "unsat")
            return;
    }
    else
        P->n_assumed_def++;
    add_constraint(!z, 1);
}

Real operator/(const Real& a, const Real& b)
{
    if (!a.id && !b.id)
    {
        // concrete replay: a division by exactly zero is the failure a definedness event predicted
        if (g_concrete && b.c == 0.0)
            P->events.push_back({"div0", "sat", site_from_backtrace(), scope_str(), "{\"_divisor\":0}"});
        return Real(a.c / b.c);
    }
    if (!b.id && b.c == 1)
        return a;
    if (!b.id && b.c == -1)
        return -a;
    if (!b.id && b.c == 0)
    {
        P->events.push_back({"div0", "sat", site_from_backtrace(), scope_str(), "{\"_divisor\":0}"});
        throw PathCut("division of a symbolic value by concrete zero");
    }
    if (g_concrete && b.id && P->terms[b.id].is_numeral() && P->terms[b.id].as_double() == 0.0 && P->terms[b.id].simplify().is_numeral())
    {
        // concrete replay: an exactly-zero rational divisor is the failure a definedness event predicted
        z3::expr z = (P->terms[b.id] == ctx().real_val(0)).simplify();
        if (z.is_true())
        {
            P->events.push_back({"div0", "sat", site_from_backtrace(), scope_str(), "{\"_divisor\":0}"});
            throw PathCut("division by an exactly zero value");
        }
    }
    definedness_nonzero(b, "div0");
    if (!a.id && a.c == 0)
        return Real(0);
    if (a.id && a.id == b.id)
        return Real(1);
    if (!b.id)
    {
        // division by a concrete: multiply by the exact reciprocal as a rational term
        uint8_t s = sign_mul(a.sign(), sign_of_double(b.c));
        return mk(a.term() / numeral(b.c), s);
    }
    uint8_t bs = b.sign() | NONZERO;
    return mk(a.term() / b.term(), sign_mul(a.sign(), bs));
}

Real& Real::operator+=(const Real& o) { return *this = *this + o; }
Real& Real::operator-=(const Real& o) { return *this = *this - o; }
Real& Real::operator*=(const Real& o) { return *this = *this * o; }
Real& Real::operator/=(const Real& o) { return *this = *this / o; }

z3::expr lt(const Real& a, const Real& b) { return a.term() < b.term(); }
z3::expr le(const Real& a, const Real& b) { return a.term() <= b.term(); }
z3::expr eq(const Real& a, const Real& b) { return a.term() == b.term(); }
z3::expr ne(const Real& a, const Real& b) { return a.term() != b.term(); }
z3::expr btrue() { return ctx().bool_val(true); }
z3::expr bfalse() { return ctx().bool_val(false); }

// comparison against zero decided from the sign lattice where possible: returns -1 unknown, 0 false, 1 true
static int lattice_lt(const Real& a, const Real& b)  // a < b ?
{
    if (!b.id && b.c == 0 && a.id)
    {
        uint8_t s = a.sign();
        if (s & NONNEG)
            return 0;
        if ((s & NONPOS) && (s & NONZERO))
            return 1;
    }
    if (!a.id && a.c == 0 && b.id)
    {
        uint8_t s = b.sign();
        if (s & NONPOS)
            return 0;
        if ((s & NONNEG) && (s & NONZERO))
            return 1;
    }
    return -1;
}
static int lattice_le(const Real& a, const Real& b)  // a <= b ?
{
    int r = lattice_lt(b, a);
    return r < 0 ? -1 : 1 - r;
}
static int lattice_eq(const Real& a, const Real& b)
{
    if (!b.id && b.c == 0 && a.id && (a.sign() & NONZERO))
        return 0;
    if (!a.id && a.c == 0 && b.id && (b.sign() & NONZERO))
        return 0;
    if (a.id && a.id == b.id)
        return 1;
    return -1;
}

bool operator<(const Real& a, const Real& b)
{
    if (!a.id && !b.id)
        return a.c < b.c;
    int l = lattice_lt(a, b);
    if (l >= 0)
        return l;
    return decide(lt(a, b));
}
bool operator<=(const Real& a, const Real& b)
{
    if (!a.id && !b.id)
        return a.c <= b.c;
    int l = lattice_le(a, b);
    if (l >= 0)
        return l;
    return decide(le(a, b));
}
bool operator>(const Real& a, const Real& b) { return b < a; }
bool operator>=(const Real& a, const Real& b) { return b <= a; }
bool operator==(const Real& a, const Real& b)
{
    if (!a.id && !b.id)
        return a.c == b.c;
    int l = lattice_eq(a, b);
    if (l >= 0)
        return l;
    return decide(eq(a, b));
}
bool operator!=(const Real& a, const Real& b) { return !(a == b); }

Real ite(const z3::expr& c, const Real& a, const Real& b)
{
    z3::expr cs = c.simplify();
    if (cs.is_true())
        return a;
    if (cs.is_false())
        return b;
    uint8_t sa = a.sign(), sb = b.sign();
    return mk(z3::ite(cs, a.term(), b.term()), sa & sb);
}

Real abs(const Real& a)
{
    if (!a.id)
        return Real(std::fabs(a.c));
    uint8_t s = a.sign();
    if (s & NONNEG)
        return a;
    if (s & NONPOS)
        return -a;
    z3::expr t = a.term();
    return mk(z3::ite(t >= ctx().real_val(0), t, -t), NONNEG | (s & NONZERO));
}
Real fabs(const Real& a) { return abs(a); }

Real smax(const Real& a, const Real& b)
{
    if (!a.id && !b.id)
        return Real(a.c < b.c ? b.c : a.c);
    uint8_t sa = a.sign(), sb = b.sign(), s = 0;
    if ((sa & NONNEG) || (sb & NONNEG))
        s |= NONNEG;
    if ((sa & NONPOS) && (sb & NONPOS))
        s |= NONPOS;
    if (((sa & NONNEG) && (sa & NONZERO)) || ((sb & NONNEG) && (sb & NONZERO)) || ((sa & NONZERO) && (sb & NONZERO)))
        s |= NONZERO;
    z3::expr ta = a.term(), tb = b.term();
    return mk(z3::ite(ta < tb, tb, ta), s);
}
Real smin(const Real& a, const Real& b) { return -smax(-a, -b); }
Real fmax(const Real& a, const Real& b) { return smax(a, b); }
Real fmin(const Real& a, const Real& b) { return smin(a, b); }

Real sqrt(const Real& a)
{
    if (!a.id)
    {
        if (a.c < 0)
        {
            P->events.push_back({"sqrtneg", "sat", site_from_backtrace(), scope_str(), "{}"});
            throw PathCut("sqrt of a negative concrete value");
        }
        return Real(std::sqrt(a.c));
    }
    if (P->sq_of[a.id])
    {
        Real x;
        x.id = P->sq_of[a.id];
        x.c = 0;
        return abs(x);
    }
    if (P->terms[a.id].is_numeral() && g_concrete)
    {
        // concrete replay: exact rational arithmetic is kept as long as possible (an exactly-zero divisor predicted by the solver
        // must stay exactly zero), but the root of a rational that is not a perfect square becomes an ordinary double instead of a
        // fresh symbol - in concrete mode nothing may be symbolic
        z3::expr num = P->terms[a.id].numerator(), den = P->terms[a.id].denominator();
        int64_t pn = 0, pd = 0;
        bool perfect = false;
        if (Z3_get_numeral_int64(ctx(), num, &pn) && Z3_get_numeral_int64(ctx(), den, &pd) && pn >= 0 && pd > 0 && pn < (1LL << 52) && pd < (1LL << 52))
        {
            int64_t rn = (int64_t) std::llround(std::sqrt((double) pn)), rd = (int64_t) std::llround(std::sqrt((double) pd));
            perfect = rn * rn == pn && rd * rd == pd;
        }
        if (!perfect)
        {
            double v = P->terms[a.id].as_double();
            if (v < 0)
            {
                P->events.push_back({"sqrtneg", "sat", site_from_backtrace(), scope_str(), "{}"});
                throw PathCut("sqrt of a negative concrete value");
            }
            return Real(std::sqrt(v));
        }
    }
    if (P->terms[a.id].is_numeral())
    {
        // exact root of a rational perfect square
        z3::expr num = P->terms[a.id].numerator(), den = P->terms[a.id].denominator();
        int64_t pn = 0, pd = 0;
        if (Z3_get_numeral_int64(ctx(), num, &pn) && Z3_get_numeral_int64(ctx(), den, &pd) && pn >= 0 && pd > 0 && pn < (1LL << 52) && pd < (1LL << 52))
        {
            int64_t rn = (int64_t) std::llround(std::sqrt((double) pn)), rd = (int64_t) std::llround(std::sqrt((double) pd));
            if (rn * rn == pn && rd * rd == pd)
                return mk(ctx().real_val(rn, rd), 0);
        }
    }
    unsigned aid = Z3_get_ast_id(ctx(), P->terms[a.id]);
    auto it = P->sqrt_memo.find(aid);
    if (it != P->sqrt_memo.end())
    {
        Real r;
        r.id = it->second;
        r.c = 0;
        return r;
    }
    uint8_t s = a.sign();
    if (!(s & NONNEG) && g_def != Def::Ignore)
    {
        z3::expr neg = a.term() < ctx().real_val(0);
        bool need_assume = true;
        if (g_def == Def::Check)
        {
            z3::expr ns = neg.simplify();
            if (ns.is_false())
                need_assume = false;
            else
            {
                SolveResult r = solve(with_slice(ns), true);
                if (r.verdict != "unsat")
                    P->events.push_back({"sqrtneg", r.verdict, site_from_backtrace(), scope_str(), model_json(r.model)});
                else
                    need_assume = false;
            }
        }
        else
            P->n_assumed_def++;
        if (need_assume)
            add_constraint(!neg, 1);
    }
    std::string nm = "sqrt!" + std::to_string(P->sqrt_memo.size());
    z3::expr sx = ctx().real_const(nm.c_str());
    int si = (int) P->sym_names.size();
    P->sym_names.push_back(nm);
    P->sym_exprs.push_back(sx);
    P->sym_index[Z3_get_ast_id(ctx(), sx)] = si;
    P->uf.push_back(si);
    Real r = mk(sx, NONNEG | (s & NONZERO));
    add_constraint(sx >= ctx().real_val(0), 2);
    add_constraint(sx * sx == a.term(), 2);
    P->sqrt_memo[aid] = r.id;
    return r;
}

Real hypot(const Real& a, const Real& b) { return sqrt(a * a + b * b); }

Real pow(const Real& a, const Real& b)
{
    if (!a.id && !b.id)
        return Real(std::pow(a.c, b.c));
    if (!b.id && b.c == std::floor(b.c) && b.c >= 0 && b.c <= 8)
    {
        Real r(1);
        for (int i = 0; i < (int) b.c; i++)
            r = r * a;
        return r;
    }
    throw Unsupported("pow with symbolic operands");
}
static Real concrete_only(const Real& a, double (*f)(double), const char* nm)
{
    if (a.id)
        throw Unsupported(std::string(nm) + " of a symbolic value");
    return Real(f(a.c));
}
Real floor(const Real& a) { return concrete_only(a, std::floor, "floor"); }
Real ceil(const Real& a) { return concrete_only(a, std::ceil, "ceil"); }
Real log(const Real& a) { return concrete_only(a, std::log, "log"); }
Real exp(const Real& a) { return concrete_only(a, std::exp, "exp"); }
Real sin(const Real& a) { return concrete_only(a, std::sin, "sin"); }
Real cos(const Real& a) { return concrete_only(a, std::cos, "cos"); }

std::ostream& operator<<(std::ostream& os, const Real& a)
{
    if (!a.id)
        return os << a.c;
    return os << "<" << P->terms[a.id] << ">";
}

// ------------------------------------------------------------------------------------------------
bool concrete_mode() { return g_concrete; }
bool model_has(const std::string& name) { return g_model.count(name) > 0; }
double model_value(const std::string& name)
{
    auto it = g_model.find(name);
    return it == g_model.end() ? 0.0 : it->second;
}

Real fresh(const std::string& name) { return fresh(name, 0); }
Real fresh(const std::string& name, uint8_t sign)
{
    if (g_concrete)
        return Real(model_value(name));
    std::string nm = name;
    for (const std::string& s : P->sym_names)
        if (s == nm)
        {
            nm = name + "#" + std::to_string(P->fresh_counter++);
            break;
        }
    z3::expr sx = ctx().real_const(nm.c_str());
    int si = (int) P->sym_names.size();
    P->sym_names.push_back(nm);
    P->sym_exprs.push_back(sx);
    P->sym_index[Z3_get_ast_id(ctx(), sx)] = si;
    P->uf.push_back(si);
    Real r = mk(sx, sign);
    z3::expr zero = ctx().real_val(0);
    if ((sign & NONNEG) && (sign & NONZERO))
        add_constraint(sx > zero);
    else if ((sign & NONPOS) && (sign & NONZERO))
        add_constraint(sx < zero);
    else
    {
        if (sign & NONNEG)
            add_constraint(sx >= zero);
        if (sign & NONPOS)
            add_constraint(sx <= zero);
        if (sign & NONZERO)
            add_constraint(sx != zero);
    }
    return r;
}

DefScope::DefScope(Def d) : saved(g_def) { g_def = d; }
DefScope::~DefScope() { g_def = saved; }
Scope::Scope(const std::string& s) { g_scope.push_back(s); }
Scope::~Scope() { g_scope.pop_back(); }

void set_profile(Profile p) { g_profile = p; }
Profile profile() { return g_profile; }
Real prof_epsilon()
{
    switch (g_profile)
    {
        case Profile::Float: return Real((double) std::numeric_limits<float>::epsilon());
        case Profile::LongDouble: return Real((double) std::numeric_limits<long double>::epsilon());
        default: return Real(std::numeric_limits<double>::epsilon());
    }
}
Real prof_min()
{
    switch (g_profile)
    {
        case Profile::Float: return Real((double) (std::numeric_limits<float>::min)());
        // long double min (3.4e-4932) underflows double; use the smallest normal double power that keeps the
        // ordering min < eps^k relations of the code (documented in DESIGN.md)
        case Profile::LongDouble: return Real(std::ldexp(1.0, -1060));
        default: return Real((std::numeric_limits<double>::min)());
    }
}
Real prof_max()
{
    switch (g_profile)
    {
        case Profile::Float: return Real((double) (std::numeric_limits<float>::max)());
        default: return Real((std::numeric_limits<double>::max)());
    }
}
void set_max_decisions(int n) { g_max_decisions = n; }
void set_normalize(bool on) { g_normalize = on; }
void set_query_cap(double first, double portfolio)
{
    g_cap_first = first;
    g_cap_portfolio = portfolio;
}

bool decide(const z3::expr& cond)
{
    z3::expr c = cond.simplify();
    if (c.is_true())
        return true;
    if (c.is_false())
        return false;
    if (g_concrete)
        throw Unsupported("symbolic decision in concrete mode");
    if (!g_taint_prefix.empty())
    {
        for (int si : syms_of(c))
            if (P->sym_names[si].compare(0, g_taint_prefix.size(), g_taint_prefix) == 0)
            {
                fail(g_taint_name, "a branch condition depends on " + P->sym_names[si]);
                throw PathCut("tainted branch");
            }
    }
    size_t n = P->decisions.size();
    if ((int) n >= g_max_decisions)
        throw PathCut("decision bound " + std::to_string(g_max_decisions) + " reached");
    unsigned h = c.hash();
    unsigned cid = Z3_get_ast_id(ctx(), c);
    {
        // the very same condition was decided earlier on this path: no new decision (deterministic, so replays agree)
        auto it = P->decided.find(cid);
        if (it != P->decided.end())
            return it->second;
    }
    if (n < P->prefix.size())
    {
        bool out = P->prefix[n] == '1';
        add_constraint(out ? c : !c);
        P->decisions.push_back({out, true, h});
        P->decided[cid] = out;
        P->decided_keep.push_back(c);
        return out;
    }
    SolveResult rt = solve(with_slice(c), false, true);
    bool feas_t = rt.verdict != "unsat", feas_f = true;
    if (rt.verdict == "unknown")
        P->n_unknown_feas++;
    if (feas_t)
    {
        SolveResult rf = solve(with_slice(!c), false, true);
        feas_f = rf.verdict != "unsat";
        if (rf.verdict == "unknown")
            P->n_unknown_feas++;
    }
    bool out = feas_t;
    bool forced = !(feas_t && feas_f);
    if (!forced)
    {
        std::string np;
        for (const Decision& d : P->decisions)
            np += d.outcome ? '1' : '0';
        np += '0';
        P->new_prefixes.push_back(np);
    }
    add_constraint(out ? c : !c);
    P->decisions.push_back({out, forced, h});
    P->decided[cid] = out;
    P->decided_keep.push_back(c);
    return out;
}

bool choose(const std::string& name)
{
    if (g_concrete)
        return model_value(name) > 0;
    Real b = fresh(name);
    return decide(lt(Real(0), b));
}

void assume(const z3::expr& cond, const std::string& why)
{
    z3::expr c = cond.simplify();
    if (c.is_true())
        return;
    if (g_concrete)
        return;  // replay: the model satisfied every assumption exactly; rounding its values to double may not
    if (c.is_false())
        throw Infeasible();
    // only new (non-replayed) assumptions need a satisfiability check; replays are deterministic anyway
    SolveResult r = solve(with_slice(c), false, true);
    if (r.verdict == "unsat")
        throw Infeasible();
    if (r.verdict == "unknown")
        P->n_unknown_feas++;
    add_constraint(c);
    (void) why;
}

static bool record_ob(const std::string& name, const SolveResult& r, const std::string& detail = "")
{
    ObRec o;
    o.name = name;
    o.verdict = r.verdict;
    o.solver = r.solver;
    o.scope = scope_str();
    o.secs = r.secs;
    o.detail = detail;
    if (r.verdict == "sat")
        o.model = model_json(r.model);
    P->obs.push_back(o);
    return r.verdict == "unsat";
}

bool check(const std::string& name, const z3::expr& prop)
{
    z3::expr p = prop.simplify();
    SolveResult r;
    if (p.is_true())
    {
        r.verdict = "unsat";
        r.solver = "simplifier";
        return record_ob(name, r);
    }
    if (g_concrete)
    {
        r.verdict = p.is_false() ? "sat" : "unknown";
        r.solver = "concrete";
        return record_ob(name, r, p.is_false() ? "" : p.to_string());
    }
    if (p.is_false())
    {
        // still need a model of the path condition for the replay
        std::vector<z3::expr> all;
        for (const Constraint& c : P->pc)
            all.push_back(c.e);
        if (all.empty())
            r.verdict = "sat";
        else
            r = solve(all, true);
        if (r.verdict == "unsat")
            return record_ob(name, r, "path infeasible");
        if (r.verdict == "unknown")
            return record_ob(name, r);
        r.verdict = "sat";
        return record_ob(name, r, "property is false on this path");
    }
    r = solve(with_slice(!p), true);
    if (r.verdict == "sat")
    {
        // complete the model with the rest of the path condition (independent groups) for replay
        std::vector<z3::expr> all;
        for (const Constraint& c : P->pc)
            all.push_back(c.e);
        all.push_back(!p);
        if (all.size() > with_slice(!p).size())
        {
            SolveResult full = solve(all, true);
            if (full.verdict == "sat")
                r.model = full.model;
        }
    }
    return record_ob(name, r);
}

bool check_eq(const std::string& name, const Real& a, const Real& b)
{
    if (!a.id && !b.id)
    {
        double tol = g_concrete ? 1e-9 * (1 + std::fabs(a.c) + std::fabs(b.c)) : 0.0;
        bool ok = std::fabs(a.c - b.c) <= tol;
        SolveResult r;
        r.verdict = ok ? "unsat" : "sat";
        r.solver = "concrete";
        // concrete mismatch on a symbolic path still needs a model of the path for replay
        if (!ok && !g_concrete)
        {
            std::vector<z3::expr> all;
            for (const Constraint& c : P->pc)
                all.push_back(c.e);
            SolveResult full = solve(all, true);
            r.model = full.model;
        }
        return record_ob(name, r, ok ? "" : ("concrete " + fmt_double(a.c) + " vs " + fmt_double(b.c)));
    }
    return check(name, eq(a, b));
}

// equality that is expected to hold as an identity of rational functions: first decided without the branch conditions of
// the path (only divisor / radicand / sqrt-definition constraints); falls back to the full path condition otherwise
bool check_identity(const std::string& name, const Real& a, const Real& b)
{
    if (g_concrete || (!a.id && !b.id))
        return check_eq(name, a, b);
    z3::expr p = eq(a, b).simplify();
    if (p.is_true())
        return check(name, p);
    std::vector<z3::expr> cons;
    std::set<int> roots;
    for (int s : syms_of(p))
        roots.insert(uf_find(s));
    for (const Constraint& c : P->pc)
        if (c.kind != 0 && !c.syms.empty() && roots.count(uf_find(c.syms[0])))
            cons.push_back(c.e);
    cons.push_back(!p);
    SolveResult r = solve(cons, false);
    if (r.verdict == "unsat")
    {
        r.solver += "(identity)";
        return record_ob(name, r);
    }
    return check(name, p);
}

bool check_close(const std::string& name, const Real& a, const Real& b, double rel, double floor_abs)
{
    if (g_concrete)
    {
        double av = a.value(), bv = b.value();
        double tol = std::max(rel, 1e-9) * std::max(std::max(std::fabs(av), std::fabs(bv)), floor_abs) + 1e-300;
        SolveResult r;
        r.verdict = std::fabs(av - bv) <= tol ? "unsat" : "sat";
        r.solver = "concrete";
        return record_ob(name, r);
    }
    Real d = abs(a - b);
    Real m = smax(smax(abs(a), abs(b)), Real(floor_abs));
    return check(name, le(d, Real(rel) * m));
}

void fail(const std::string& name, const std::string& detail)
{
    SolveResult r;
    r.solver = "path";
    if (!g_concrete)
    {
        std::vector<z3::expr> all;
        for (const Constraint& c : P->pc)
            all.push_back(c.e);
        if (!all.empty())
        {
            SolveResult full = solve(all, true);
            r.model = full.model;
            r.secs = full.secs;
            if (full.verdict == "unsat")
            {
                // the path itself is infeasible (it was entered on an "unknown" feasibility answer): nothing failed
                r.verdict = "unsat";
                r.solver = full.solver;
                record_ob(name, r, "path infeasible");
                return;
            }
            if (full.verdict == "unknown")
            {
                r.verdict = "unknown";
                r.solver = full.solver;
                record_ob(name, r, detail + " (feasibility of this path unknown)");
                return;
            }
        }
    }
    r.verdict = "sat";
    record_ob(name, r, detail);
}
void pass(const std::string& name)
{
    SolveResult r;
    r.verdict = "unsat";
    r.solver = "path";
    record_ob(name, r);
}
void expect(const std::string& name, bool ok, const std::string& detail)
{
    if (ok)
        pass(name);
    else
        fail(name, detail);
}

void witness(const std::string& label)
{
    if (g_concrete)
    {
        P->witnesses.push_back({label, "sat"});
        return;
    }
    std::vector<z3::expr> all;
    for (const Constraint& c : P->pc)
        all.push_back(c.e);
    std::string v = "sat";
    if (!all.empty())
        v = solve(all, false).verdict;
    P->witnesses.push_back({label, v});
}
void note(const std::string& key, const std::string& value) { P->notes.push_back({key, value}); }
void cut(const std::string& why) { throw PathCut(why); }
void set_taint_prefix(const std::string& prefix, const std::string& name)
{
    g_taint_prefix = prefix;
    g_taint_name = name;
}
std::vector<std::string> symbols_of(const Real& a)
{
    std::vector<std::string> r;
    if (!a.id)
        return r;
    for (int si : syms_of(P->terms[a.id]))
        r.push_back(P->sym_names[si]);
    return r;
}
bool mentions(const Real& a, const std::string& prefix)
{
    for (const std::string& s : symbols_of(a))
        if (s.compare(0, prefix.size(), prefix) == 0)
            return true;
    return false;
}

// ================================================================================================
// runner
namespace {

struct PathResult
{
    std::string outcome;  // completed | cut:<why> | infeasible | unsupported:<why> | exception:<what>
    std::string decisions;
    std::vector<std::string> lines;  // protocol lines
};

std::vector<std::string> run_path(const Case& cs, const std::string& prefix)
{
    PathState st;
    P = &st;
    st.zctx.reset(new z3::context());
    Z3_set_ast_print_mode(*st.zctx, Z3_PRINT_SMTLIB2_COMPLIANT);
    st.terms.push_back(st.zctx->real_val(0));
    st.signs.push_back(0);
    st.sq_of.push_back(0);
    st.prefix = prefix;
    g_scope.clear();
    g_taint_prefix.clear();
    g_normalize = false;
    g_def = Def::Check;
    std::string outcome = "completed";
    double t0 = now();
    try
    {
        cs.body();
    }
    catch (const PathCut& e)
    {
        outcome = std::string("cut:") + e.what();
    }
    catch (const Infeasible&)
    {
        outcome = "infeasible";
    }
    catch (const Unsupported& e)
    {
        outcome = std::string("unsupported:") + e.what();
    }
    catch (const EigenAssert& e)
    {
        outcome = std::string("eigen_assert:") + e.what();
    }
    catch (const z3::exception& e)
    {
        outcome = std::string("z3exception:") + e.msg();
    }
    catch (const std::exception& e)
    {
        outcome = std::string("exception:") + e.what();
    }
    double secs = now() - t0;
    std::vector<std::string> out;
    if (st.decisions.size() < prefix.size() && outcome.rfind("infeasible", 0) != 0)
    {
        if (getenv("SYMX_DEBUG_DIVERGE"))
        {
            std::string d;
            for (const Decision& x : st.decisions)
                d += x.outcome ? '1' : '0';
            fprintf(stderr, "DIVERGE prefix=%s decisions=%s outcome=%s unknown_feas=%d\n", prefix.c_str(), d.c_str(), outcome.c_str(), st.n_unknown_feas);
        }
        outcome = "replay-divergence:" + outcome;
    }
    for (const std::string& np : st.new_prefixes)
        out.push_back("NEW\t" + np);
    char buf[256];
    for (const ObRec& o : st.obs)
    {
        snprintf(buf, sizeof buf, "%.4f", o.secs);
        out.push_back("O\t" + sanitize(o.name) + "\t" + o.verdict + "\t" + o.solver + "\t" + buf + "\t" + sanitize(o.scope) + "\t" +
                      sanitize(o.model) + "\t" + sanitize(o.detail));
    }
    for (const EvRec& e : st.events)
        out.push_back("E\t" + e.kind + "\t" + e.verdict + "\t" + sanitize(e.site) + "\t" + sanitize(e.scope) + "\t" + sanitize(e.model));
    for (auto& kv : st.notes)
        out.push_back("N\t" + sanitize(kv.first) + "\t" + sanitize(kv.second));
    for (auto& kv : st.witnesses)
        out.push_back("W\t" + sanitize(kv.first) + "\t" + kv.second);
    std::string dec;
    int nfree = 0, nforced = 0;
    for (size_t i = 0; i < st.decisions.size(); i++)
    {
        const Decision& d = st.decisions[i];
        dec += d.outcome ? '1' : '0';
        if (i >= prefix.size())
        {
            if (d.forced)
                nforced++;
            else
                nfree++;
        }
    }
    snprintf(buf, sizeof buf, "%d\t%d\t%ld\t%ld\t%ld\t%.4f\t%d\t%d\t%.4f", nfree, nforced, st.queries, st.queries_inproc, st.queries_cli,
             st.solver_secs, st.n_unknown_feas, st.n_assumed_def, secs);
    out.push_back("P\t" + sanitize(outcome) + "\t" + dec + "\t" + buf);
    // destroy z3 objects before the context
    st.pc.clear();
    st.syms_cache.clear();
    st.lin_cache.clear();
    st.terms.clear();
    st.numerals.clear();
    st.sym_exprs.clear();
    P = nullptr;
    return out;
}

std::vector<std::string> split_tab(const std::string& s)
{
    std::vector<std::string> r;
    size_t i = 0;
    while (true)
    {
        size_t j = s.find('\t', i);
        if (j == std::string::npos)
        {
            r.push_back(s.substr(i));
            break;
        }
        r.push_back(s.substr(i, j - i));
        i = j + 1;
    }
    return r;
}

struct NameAgg
{
    long unsat = 0, sat = 0, unknown = 0;
    double secs = 0, max_secs = 0;
};
struct EvAgg
{
    long count = 0;
    std::string verdict, model, first_path;
};
struct CaseAgg
{
    long paths = 0, completed = 0, cut = 0, infeasible = 0, other = 0;
    std::map<std::string, long> outcomes;
    long obligations = 0, discharged = 0, sat = 0, unknown = 0;
    std::map<std::string, NameAgg> by_name;
    std::map<std::string, long> by_solver;
    std::vector<std::string> failing;  // JSON objects
    long failing_total = 0;
    std::map<std::string, EvAgg> events;  // key kind|site|scope
    std::map<std::string, std::set<std::string>> notes;
    std::map<std::string, std::map<std::string, long>> witnesses;
    long free_dec = 0, forced_dec = 0, queries = 0, q_inproc = 0, q_cli = 0, unknown_feas = 0, assumed_def = 0;
    double solver_secs = 0, path_secs = 0;
    size_t max_depth = 0;
    std::vector<std::string> sample_paths;
    std::vector<std::string> sample_obs;
    double wall = 0;
};

void absorb(CaseAgg& a, const std::vector<std::string>& lines, std::deque<std::string>* newq)
{
    std::string pathdec, outcome;
    for (const std::string& l : lines)
        if (l[0] == 'P' && l[1] == '\t')
        {
            auto f = split_tab(l);
            outcome = f[1];
            pathdec = f[2];
        }
    for (const std::string& l : lines)
    {
        auto f = split_tab(l);
        if (f[0] == "NEW")
        {
            if (newq)
                newq->push_back(f[1]);
        }
        else if (f[0] == "O")
        {
            a.obligations++;
            NameAgg& na = a.by_name[f[1]];
            double secs = atof(f[4].c_str());
            na.secs += secs;
            na.max_secs = std::max(na.max_secs, secs);
            a.by_solver[f[3]]++;
            if (f[2] == "unsat")
            {
                a.discharged++;
                na.unsat++;
                if (a.sample_obs.size() < 6 && (a.obligations % 7 == 1))
                    a.sample_obs.push_back("{\"name\":\"" + json_escape(f[1]) + "\",\"scope\":\"" + json_escape(f[5]) + "\",\"path\":\"" + pathdec +
                                           "\",\"solver\":\"" + f[3] + "\",\"verdict\":\"unsat\"}");
            }
            else
            {
                if (f[2] == "sat")
                {
                    a.sat++;
                    na.sat++;
                }
                else
                {
                    a.unknown++;
                    na.unknown++;
                }
                a.failing_total++;
                if (a.failing.size() < 200)
                    a.failing.push_back("{\"name\":\"" + json_escape(f[1]) + "\",\"verdict\":\"" + f[2] + "\",\"solver\":\"" + f[3] +
                                        "\",\"scope\":\"" + json_escape(f[5]) + "\",\"path\":\"" + pathdec + "\",\"model\":" +
                                        (f[6].empty() ? "null" : f[6]) + ",\"detail\":\"" + json_escape(f.size() > 7 ? f[7] : "") + "\"}");
            }
        }
        else if (f[0] == "E")
        {
            EvAgg& e = a.events[f[1] + "|" + f[3] + "|" + f[4]];
            if (e.count == 0 || (e.verdict != "sat" && f[2] == "sat"))
            {
                e.verdict = f[2];
                e.model = f[5];
                e.first_path = pathdec;
            }
            e.count++;
        }
        else if (f[0] == "N")
        {
            auto& s = a.notes[f[1]];
            if (s.size() < 64)
                s.insert(f[2]);
        }
        else if (f[0] == "W")
            a.witnesses[f[1]][f[2]]++;
        else if (f[0] == "P")
        {
            a.paths++;
            std::string oc = f[1];
            std::string key = oc.substr(0, oc.find(':'));
            if (key == "completed")
                a.completed++;
            else if (key == "cut")
                a.cut++;
            else if (key == "infeasible")
                a.infeasible++;
            else
                a.other++;
            a.outcomes[oc.size() > 160 ? oc.substr(0, 160) : oc]++;
            a.free_dec += atol(f[3].c_str());
            a.forced_dec += atol(f[4].c_str());
            a.queries += atol(f[5].c_str());
            a.q_inproc += atol(f[6].c_str());
            a.q_cli += atol(f[7].c_str());
            a.solver_secs += atof(f[8].c_str());
            a.unknown_feas += atol(f[9].c_str());
            a.assumed_def += atol(f[10].c_str());
            a.path_secs += atof(f[11].c_str());
            a.max_depth = std::max(a.max_depth, f[2].size());
            if (a.sample_paths.size() < 4)
                a.sample_paths.push_back(f[2] + " -> " + oc.substr(0, 80));
        }
    }
}

std::string case_json(const std::string& name, const CaseAgg& a)
{
    std::ostringstream o;
    o << "{\"case\":\"" << json_escape(name) << "\",\"paths\":" << a.paths << ",\"completed\":" << a.completed << ",\"cut\":" << a.cut
      << ",\"infeasible\":" << a.infeasible << ",\"other\":" << a.other << ",\"obligations\":" << a.obligations
      << ",\"discharged\":" << a.discharged << ",\"sat\":" << a.sat << ",\"unknown\":" << a.unknown << ",\"free_decisions\":" << a.free_dec
      << ",\"forced_decisions\":" << a.forced_dec << ",\"queries\":" << a.queries << ",\"queries_inproc\":" << a.q_inproc
      << ",\"queries_cli\":" << a.q_cli << ",\"solver_secs\":" << a.solver_secs << ",\"path_secs\":" << a.path_secs
      << ",\"unknown_feasibility\":" << a.unknown_feas << ",\"assumed_definedness\":" << a.assumed_def << ",\"max_depth\":" << a.max_depth
      << ",\"wall_s\":" << a.wall;
    o << ",\"outcomes\":{";
    bool first = true;
    for (auto& kv : a.outcomes)
    {
        o << (first ? "" : ",") << "\"" << json_escape(kv.first) << "\":" << kv.second;
        first = false;
    }
    o << "},\"by_name\":{";
    first = true;
    for (auto& kv : a.by_name)
    {
        o << (first ? "" : ",") << "\"" << json_escape(kv.first) << "\":{\"unsat\":" << kv.second.unsat << ",\"sat\":" << kv.second.sat
          << ",\"unknown\":" << kv.second.unknown << ",\"secs\":" << kv.second.secs << ",\"max_secs\":" << kv.second.max_secs << "}";
        first = false;
    }
    o << "},\"by_solver\":{";
    first = true;
    for (auto& kv : a.by_solver)
    {
        o << (first ? "" : ",") << "\"" << json_escape(kv.first) << "\":" << kv.second;
        first = false;
    }
    o << "},\"failing_total\":" << a.failing_total << ",\"failing\":[";
    for (size_t i = 0; i < a.failing.size(); i++)
        o << (i ? "," : "") << a.failing[i];
    o << "],\"events\":[";
    first = true;
    for (auto& kv : a.events)
    {
        auto parts = kv.first;
        size_t p1 = parts.find('|'), p2 = parts.find('|', p1 + 1);
        o << (first ? "" : ",") << "{\"kind\":\"" << json_escape(parts.substr(0, p1)) << "\",\"site\":\""
          << json_escape(parts.substr(p1 + 1, p2 - p1 - 1)) << "\",\"scope\":\"" << json_escape(parts.substr(p2 + 1)) << "\",\"count\":"
          << kv.second.count << ",\"verdict\":\"" << kv.second.verdict << "\",\"path\":\"" << kv.second.first_path << "\",\"model\":"
          << (kv.second.model.empty() ? "null" : kv.second.model) << "}";
        first = false;
    }
    o << "],\"notes\":{";
    first = true;
    for (auto& kv : a.notes)
    {
        o << (first ? "" : ",") << "\"" << json_escape(kv.first) << "\":[";
        bool f2 = true;
        for (auto& v : kv.second)
        {
            o << (f2 ? "" : ",") << "\"" << json_escape(v) << "\"";
            f2 = false;
        }
        o << "]";
        first = false;
    }
    o << "},\"witnesses\":{";
    first = true;
    for (auto& kv : a.witnesses)
    {
        o << (first ? "" : ",") << "\"" << json_escape(kv.first) << "\":{";
        bool f2 = true;
        for (auto& v : kv.second)
        {
            o << (f2 ? "" : ",") << "\"" << v.first << "\":" << v.second;
            f2 = false;
        }
        o << "}";
        first = false;
    }
    o << "},\"sample_paths\":[";
    for (size_t i = 0; i < a.sample_paths.size(); i++)
        o << (i ? "," : "") << "\"" << json_escape(a.sample_paths[i]) << "\"";
    o << "],\"sample_obligations\":[";
    for (size_t i = 0; i < a.sample_obs.size(); i++)
        o << (i ? "," : "") << a.sample_obs[i];
    o << "]}";
    return o.str();
}

bool read_model_file(const std::string& file)
{
    std::ifstream f(file);
    if (!f)
        return false;
    std::stringstream ss;
    ss << f.rdbuf();
    std::string s = ss.str();
    // minimal JSON object parser: {"name": number, ...}
    size_t i = 0;
    while (true)
    {
        size_t q1 = s.find('"', i);
        if (q1 == std::string::npos)
            break;
        size_t q2 = s.find('"', q1 + 1);
        if (q2 == std::string::npos)
            break;
        std::string key = s.substr(q1 + 1, q2 - q1 - 1);
        size_t colon = s.find(':', q2);
        if (colon == std::string::npos)
            break;
        char* end = nullptr;
        double v = std::strtod(s.c_str() + colon + 1, &end);
        g_model[key] = v;
        i = end - s.c_str();
    }
    return true;
}

void worker_loop(int fd, const std::vector<Case>& cases)
{
    FILE* in = fdopen(fd, "r");
    FILE* out = fdopen(dup(fd), "w");
    char* line = nullptr;
    size_t cap = 0;
    while (getline(&line, &cap, in) > 0)
    {
        std::string l(line);
        while (!l.empty() && (l.back() == '\n' || l.back() == '\r'))
            l.pop_back();
        auto f = split_tab(l);
        if (f[0] == "QUIT")
            break;
        if (f[0] != "RUN" || f.size() < 3)
            continue;
        int ci = atoi(f[1].c_str());
        std::string prefix = f[2] == "-" ? "" : f[2];
        std::vector<std::string> res = run_path(cases[ci], prefix);
        for (const std::string& r : res)
        {
            fputs(r.c_str(), out);
            fputc('\n', out);
        }
        fputs("END\n", out);
        fflush(out);
    }
    free(line);
    g_z3.stop();
    cleanup_tmpdir();
    _exit(0);
}

}  // namespace

int run_main(int argc, char** argv, const std::vector<Case>& all_cases)
{
    std::string pattern = ".*", outfile, replay_prefix, model_file;
    int workers = 1;
    bool list = false, have_replay = false;
    double deadline_s = 0;
    long max_paths = 0;
    for (int i = 1; i < argc; i++)
    {
        std::string a = argv[i];
        if (a == "--list")
            list = true;
        else if (a == "--run" && i + 1 < argc)
            pattern = argv[++i];
        else if (a == "--workers" && i + 1 < argc)
            workers = atoi(argv[++i]);
        else if (a == "--out" && i + 1 < argc)
            outfile = argv[++i];
        else if (a == "--serial")
            workers = 1;
        else if (a == "--replay" && i + 1 < argc)
        {
            replay_prefix = argv[++i];
            have_replay = true;
        }
        else if (a == "--model" && i + 1 < argc)
            model_file = argv[++i];
        else if (a == "--verbose")
            g_verbose = true;
        else if (a == "--deadline" && i + 1 < argc)
            deadline_s = atof(argv[++i]);
        else if (a == "--max-paths" && i + 1 < argc)
            max_paths = atol(argv[++i]);
        else if (a == "--cap" && i + 2 < argc)
        {
            g_cap_first = atof(argv[++i]);
            g_cap_portfolio = atof(argv[++i]);
        }
        else if (a == "--feas-cap" && i + 1 < argc)
            g_cap_feas = atof(argv[++i]);
        else if (a == "--profile" && i + 1 < argc)
        {
            std::string p = argv[++i];
            g_profile = p == "float" ? Profile::Float : (p == "longdouble" ? Profile::LongDouble : Profile::Double);
        }
    }
    std::vector<Case> cases;
    std::regex re(pattern);
    for (const Case& c : all_cases)
        if (std::regex_search(c.name, re))
            cases.push_back(c);
    if (list)
    {
        for (const Case& c : cases)
            printf("%s\n", c.name.c_str());
        return 0;
    }
    double t_start = now();
    std::vector<CaseAgg> aggs(cases.size());
    bool timed_out = false;

    if (!model_file.empty())
    {
        if (!read_model_file(model_file))
        {
            fprintf(stderr, "cannot read model %s\n", model_file.c_str());
            return 3;
        }
        g_concrete = true;
        for (size_t ci = 0; ci < cases.size(); ci++)
        {
            auto lines = run_path(cases[ci], "");
            absorb(aggs[ci], lines, nullptr);
        }
    }
    else if (have_replay)
    {
        for (size_t ci = 0; ci < cases.size(); ci++)
        {
            auto lines = run_path(cases[ci], replay_prefix == "-" ? "" : replay_prefix);
            for (auto& l : lines)
                printf("%s\n", l.c_str());
            absorb(aggs[ci], lines, nullptr);
        }
    }
    else if (workers <= 1)
    {
        for (size_t ci = 0; ci < cases.size(); ci++)
        {
            double t0 = now();
            std::deque<std::string> q;
            q.push_back("");
            while (!q.empty())
            {
                std::string p = q.front();
                q.pop_front();
                auto lines = run_path(cases[ci], p);
                absorb(aggs[ci], lines, &q);
                if ((deadline_s > 0 && now() - t_start > deadline_s) || (max_paths > 0 && aggs[ci].paths >= max_paths))
                {
                    timed_out = !q.empty();
                    break;
                }
            }
            aggs[ci].wall = now() - t0;
        }
        g_z3.stop();
        cleanup_tmpdir();
    }
    else
    {
        std::string parent_tmp;
        {
            std::string t = "/tmp/symxrun.XXXXXX";
            std::vector<char> b(t.begin(), t.end());
            b.push_back(0);
            if (mkdtemp(b.data()))
            {
                parent_tmp = b.data();
                setenv("SYMX_TMP", parent_tmp.c_str(), 1);
            }
        }
        struct W
        {
            pid_t pid;
            int fd;
            bool busy;
            int ci;
            std::string prefix;
            std::string buf;
            std::vector<std::string> lines;
        };
        std::vector<W> ws;
        for (int w = 0; w < workers; w++)
        {
            int sv[2];
            if (socketpair(AF_UNIX, SOCK_STREAM, 0, sv))
            {
                perror("socketpair");
                return 3;
            }
            pid_t pid = fork();
            if (pid == 0)
            {
                close(sv[0]);
                for (W& o : ws)
                    close(o.fd);
                worker_loop(sv[1], cases);
            }
            close(sv[1]);
            ws.push_back({pid, sv[0], false, -1, "", "", {}});
        }
        std::deque<std::pair<int, std::string>> q;
        for (size_t ci = 0; ci < cases.size(); ci++)
            q.push_back({(int) ci, ""});
        std::vector<long> outstanding(cases.size(), 0);
        std::vector<double> cstart(cases.size(), 0);
        size_t busy = 0;
        while (!q.empty() || busy > 0)
        {
            if (deadline_s > 0 && now() - t_start > deadline_s)
            {
                timed_out = true;
                break;
            }
            for (W& w : ws)
            {
                if (w.busy || q.empty())
                    continue;
                auto item = q.front();
                q.pop_front();
                if (max_paths > 0 && aggs[item.first].paths + outstanding[item.first] >= max_paths)
                {
                    timed_out = true;
                    continue;
                }
                std::string msg = "RUN\t" + std::to_string(item.first) + "\t" + (item.second.empty() ? "-" : item.second) + "\n";
                if (write(w.fd, msg.data(), msg.size()) != (ssize_t) msg.size())
                {
                    perror("write");
                    return 3;
                }
                w.busy = true;
                w.ci = item.first;
                w.prefix = item.second;
                if (cstart[w.ci] == 0)
                    cstart[w.ci] = now();
                outstanding[w.ci]++;
                busy++;
            }
            if (busy == 0)
                continue;
            std::vector<pollfd> pf;
            for (W& w : ws)
                pf.push_back({w.fd, POLLIN, 0});
            int pr = poll(pf.data(), pf.size(), 1000);
            if (pr <= 0)
                continue;
            for (size_t wi = 0; wi < ws.size(); wi++)
            {
                if (!(pf[wi].revents & (POLLIN | POLLHUP)))
                    continue;
                W& w = ws[wi];
                char buf[65536];
                ssize_t n = read(w.fd, buf, sizeof buf);
                if (n <= 0)
                {
                    if (w.busy)
                    {
                        // worker died: count the path as 'other'
                        fprintf(stderr, "worker %d died while running case %s\n", (int) wi, cases[w.ci].name.c_str());
                        std::vector<std::string> lines{"P\tworker-died\t\t0\t0\t0\t0\t0\t0\t0\t0\t0"};
                        absorb(aggs[w.ci], lines, nullptr);
                        outstanding[w.ci]--;
                        busy--;
                        w.busy = false;
                    }
                    close(w.fd);
                    // respawn
                    int sv[2];
                    if (socketpair(AF_UNIX, SOCK_STREAM, 0, sv))
                        return 3;
                    pid_t pid = fork();
                    if (pid == 0)
                    {
                        close(sv[0]);
                        worker_loop(sv[1], cases);
                    }
                    close(sv[1]);
                    waitpid(w.pid, nullptr, WNOHANG);
                    w.pid = pid;
                    w.fd = sv[0];
                    w.buf.clear();
                    w.lines.clear();
                    continue;
                }
                w.buf.append(buf, n);
                size_t pos;
                while ((pos = w.buf.find('\n')) != std::string::npos)
                {
                    std::string l = w.buf.substr(0, pos);
                    w.buf.erase(0, pos + 1);
                    if (l == "END")
                    {
                        std::deque<std::string> nq;
                        absorb(aggs[w.ci], w.lines, &nq);
                        for (auto& p : nq)
                            q.push_back({w.ci, p});
                        w.lines.clear();
                        w.busy = false;
                        outstanding[w.ci]--;
                        busy--;
                        aggs[w.ci].wall = now() - cstart[w.ci];
                    }
                    else
                        w.lines.push_back(l);
                }
            }
        }
        for (W& w : ws)
        {
            if (timed_out && w.busy)
                fprintf(stderr, "deadline: still running case %s prefix '%s'\n", cases[w.ci].name.c_str(), w.prefix.c_str());
            if (timed_out)
                kill(w.pid, SIGKILL);
            else if (write(w.fd, "QUIT\n", 5) < 0)
            {
            }
            close(w.fd);
        }
        for (W& w : ws)
            waitpid(w.pid, nullptr, 0);
        if (!parent_tmp.empty())
        {
            std::string cmd = "rm -rf '" + parent_tmp + "'";
            if (system(cmd.c_str()))
            {
            }
        }
    }

    std::ostringstream o;
    o << "{\"timed_out\":" << (timed_out ? "true" : "false") << ",\"wall_s\":" << (now() - t_start) << ",\"workers\":" << workers
      << ",\"profile\":\"" << (g_profile == Profile::Float ? "float" : g_profile == Profile::LongDouble ? "longdouble" : "double")
      << "\",\"cases\":[";
    for (size_t ci = 0; ci < cases.size(); ci++)
        o << (ci ? ",\n" : "\n") << case_json(cases[ci].name, aggs[ci]);
    o << "\n]}\n";
    if (!outfile.empty())
    {
        std::ofstream f(outfile);
        f << o.str();
    }
    else
        fputs(o.str().c_str(), stdout);
    return 0;
}

}  // namespace sym
