// Glue that lets Eigen and Spectra be instantiated with sym::Real.  Include before any Spectra header.
#pragma once
#include "symx.h"

// Eigen index/shape assertions become C++ exceptions so that a violation on an explored path is an outcome
#ifndef SYMX_NO_EIGEN_ASSERT_REDIRECT
#undef eigen_assert
#define SYMX_STR2(x) #x
#define SYMX_STR(x) SYMX_STR2(x)
#define eigen_assert(x)                                                                   \
    do                                                                                    \
    {                                                                                     \
        if (!(x))                                                                         \
            throw sym::EigenAssert(#x " at " __FILE__ ":" SYMX_STR(__LINE__));            \
    } while (false)
#endif

#include <Eigen/Core>

namespace Eigen {
template <>
struct NumTraits<sym::Real> : GenericNumTraits<sym::Real>
{
    typedef sym::Real Real;
    typedef sym::Real NonInteger;
    typedef sym::Real Nested;
    typedef sym::Real Literal;
    enum
    {
        IsComplex = 0,
        IsInteger = 0,
        IsSigned = 1,
        RequireInitialization = 1,
        ReadCost = 2,
        AddCost = 4,
        MulCost = 4
    };
    static inline Real epsilon() { return sym::prof_epsilon(); }
    static inline Real dummy_precision() { return sym::Real(1e-12); }
    static inline Real highest() { return sym::prof_max(); }
    static inline Real lowest() { return -sym::prof_max(); }
    static inline int digits10() { return 15; }
    static inline int digits() { return 53; }
};
template <typename BinaryOp>
struct ScalarBinaryOpTraits<sym::Real, double, BinaryOp>
{
    typedef sym::Real ReturnType;
};
template <typename BinaryOp>
struct ScalarBinaryOpTraits<double, sym::Real, BinaryOp>
{
    typedef sym::Real ReturnType;
};
template <typename BinaryOp>
struct ScalarBinaryOpTraits<sym::Real, int, BinaryOp>
{
    typedef sym::Real ReturnType;
};
template <typename BinaryOp>
struct ScalarBinaryOpTraits<int, sym::Real, BinaryOp>
{
    typedef sym::Real ReturnType;
};
namespace numext {
// merge instead of fork
template <>
EIGEN_ALWAYS_INLINE sym::Real maxi(const sym::Real& x, const sym::Real& y) { return sym::smax(x, y); }
template <>
EIGEN_ALWAYS_INLINE sym::Real mini(const sym::Real& x, const sym::Real& y) { return sym::smin(x, y); }
}  // namespace numext
}  // namespace Eigen

// complex magnitude without the scaling branches of libstdc++'s generic __complex_abs
namespace std {
template <>
inline sym::Real abs<sym::Real>(const complex<sym::Real>& z) { return sym::hypot(z.real(), z.imag()); }
}  // namespace std

#include <Spectra/Util/TypeTraits.h>
namespace Spectra {
template <>
struct TypeTraits<sym::Real>
{
    static sym::Real epsilon() { return sym::prof_epsilon(); }
    static sym::Real(min)() { return sym::prof_min(); }
};
}  // namespace Spectra

namespace symx {
using RMat = Eigen::Matrix<sym::Real, Eigen::Dynamic, Eigen::Dynamic>;
using RVec = Eigen::Matrix<sym::Real, Eigen::Dynamic, 1>;
using CReal = std::complex<sym::Real>;
using CMat = Eigen::Matrix<CReal, Eigen::Dynamic, Eigen::Dynamic>;
using CVec = Eigen::Matrix<CReal, Eigen::Dynamic, 1>;

inline RMat fresh_mat(const std::string& nm, int r, int c)
{
    RMat m(r, c);
    for (int i = 0; i < r; i++)
        for (int j = 0; j < c; j++)
            m(i, j) = sym::fresh(nm + "_" + std::to_string(i) + "_" + std::to_string(j));
    return m;
}
inline RVec fresh_vec(const std::string& nm, int n)
{
    RVec v(n);
    for (int i = 0; i < n; i++)
        v[i] = sym::fresh(nm + "_" + std::to_string(i));
    return v;
}
// entry-wise matrix equality obligations, one query per entry
template <typename A, typename B>
inline bool check_mat_eq(const std::string& nm, const A& a, const B& b)
{
    bool ok = true;
    if (a.rows() != b.rows() || a.cols() != b.cols())
    {
        sym::fail(nm + ":shape", "shape mismatch");
        return false;
    }
    for (int i = 0; i < a.rows(); i++)
        for (int j = 0; j < a.cols(); j++)
            ok &= sym::check_eq(nm + "(" + std::to_string(i) + "," + std::to_string(j) + ")", a(i, j), b(i, j));
    return ok;
}
}  // namespace symx
