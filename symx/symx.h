// symx: source-level symbolic execution of the real Spectra templates by instantiating them with
// sym::Real, a scalar that is either a concrete IEEE double or a z3 term of sort Real.
// See DESIGN.md section 3.1.  Exact-real semantics; definedness obligations on / and sqrt.
#pragma once
#include <z3++.h>
#include <cmath>
#include <complex>
#include <cstdint>
#include <functional>
#include <limits>
#include <map>
#include <sstream>
#include <stdexcept>
#include <string>
#include <type_traits>
#include <vector>

namespace sym {

// ------------------------------------------------------------------------------------------------
// exceptions used to end a path
struct EigenAssert : std::exception
{
    std::string msg;
    explicit EigenAssert(const std::string& m) : msg(m) {}
    const char* what() const noexcept override { return msg.c_str(); }
};
struct PathCut : std::exception  // depth / iteration bound hit: path is reported as truncated
{
    std::string msg;
    explicit PathCut(const std::string& m) : msg(m) {}
    const char* what() const noexcept override { return msg.c_str(); }
};
struct Infeasible : std::exception  // an assume() made the path condition unsatisfiable
{
    const char* what() const noexcept override { return "infeasible"; }
};
struct Unsupported : std::exception
{
    std::string msg;
    explicit Unsupported(const std::string& m) : msg(m) {}
    const char* what() const noexcept override { return msg.c_str(); }
};

// sign knowledge bits (a tiny abstract domain used to skip solver calls)
enum : uint8_t { NONNEG = 1, NONPOS = 2, NONZERO = 4 };

z3::context& ctx();

// ------------------------------------------------------------------------------------------------
class Real
{
public:
    double c;    // concrete value (valid when id == 0)
    int32_t id;  // 0: concrete; otherwise index into the per-path term table

    Real() : c(0.0), id(0) {}
    template <typename T, typename = typename std::enable_if<std::is_arithmetic<T>::value>::type>
    Real(T v) : c(static_cast<double>(v)), id(0) {}

    bool is_sym() const { return id != 0; }
    double value() const;  // concrete value; throws Unsupported when symbolic
    uint8_t sign() const;  // sign knowledge bits
    z3::expr term() const;  // numeral or term

    Real& operator+=(const Real& o);
    Real& operator-=(const Real& o);
    Real& operator*=(const Real& o);
    Real& operator/=(const Real& o);
    Real operator-() const;
    Real operator+() const { return *this; }

    explicit operator double() const { return value(); }
    explicit operator float() const { return (float) value(); }
    explicit operator long double() const { return (long double) value(); }
    explicit operator int() const { return (int) value(); }
    explicit operator long() const { return (long) value(); }
    explicit operator long long() const { return (long long) value(); }
    explicit operator bool() const;
};

Real operator+(const Real& a, const Real& b);
Real operator-(const Real& a, const Real& b);
Real operator*(const Real& a, const Real& b);
Real operator/(const Real& a, const Real& b);
bool operator<(const Real& a, const Real& b);
bool operator<=(const Real& a, const Real& b);
bool operator>(const Real& a, const Real& b);
bool operator>=(const Real& a, const Real& b);
bool operator==(const Real& a, const Real& b);
bool operator!=(const Real& a, const Real& b);

Real abs(const Real& a);
Real fabs(const Real& a);
Real sqrt(const Real& a);
Real pow(const Real& a, const Real& b);  // concrete only, or small non-negative integer exponent
Real hypot(const Real& a, const Real& b);
Real fmax(const Real& a, const Real& b);
Real fmin(const Real& a, const Real& b);
Real smax(const Real& a, const Real& b);  // ite-merged max / min
Real smin(const Real& a, const Real& b);
Real floor(const Real& a);
Real ceil(const Real& a);
Real log(const Real& a);
Real exp(const Real& a);
Real sin(const Real& a);
Real cos(const Real& a);
inline bool isfinite(const Real&) { return true; }  // exact reals; a non-finite value is a definedness event
inline bool isnan(const Real&) { return false; }
inline bool isinf(const Real&) { return false; }
inline Real real(const Real& a) { return a; }
inline Real imag(const Real&) { return Real(0); }
inline Real conj(const Real& a) { return a; }
inline Real abs2(const Real& a) { return a * a; }
std::ostream& operator<<(std::ostream& os, const Real& a);

// ------------------------------------------------------------------------------------------------
// symbols, assumptions, obligations
Real fresh(const std::string& name);                 // fresh symbolic real (or the model value in concrete mode)
Real fresh(const std::string& name, uint8_t sign);   // with sign knowledge; the constraint is added to the path
Real from_expr(const z3::expr& e, uint8_t sign = 0);
Real exact(double v);           // the exact rational value of a double as a constant term (later arithmetic is exact)
Real rational(long p, long q);  // exact rational constant kept as a term (arithmetic on it is exact, not double)
Real exact_mul(const Real& a, const Real& b);  // product as an exact rational term even when both operands are concrete doubles
Real ite(const z3::expr& c, const Real& a, const Real& b);
z3::expr lt(const Real& a, const Real& b);
z3::expr le(const Real& a, const Real& b);
z3::expr eq(const Real& a, const Real& b);
z3::expr ne(const Real& a, const Real& b);
z3::expr btrue();
z3::expr bfalse();

bool concrete_mode();                // replay: every fresh() takes its value from the supplied model
bool decide(const z3::expr& cond);   // fork point
bool choose(const std::string& name);  // nondeterministic choice (a fork on a fresh unconstrained boolean)
void assume(const z3::expr& cond, const std::string& why = "");
// obligation: pc => prop.  Records verdict (unsat = discharged / sat = violation candidate / unknown)
bool check(const std::string& name, const z3::expr& prop);
bool check_eq(const std::string& name, const Real& a, const Real& b);
bool check_identity(const std::string& name, const Real& a, const Real& b);  // as check_eq, tried first without branch conditions
// |a-b| <= rel * max(|a|,|b|, floor)   (used only where the code itself approximates in exact arithmetic)
bool check_close(const std::string& name, const Real& a, const Real& b, double rel, double floor_abs = 0.0);
// a violation that does not need a solver (e.g. an index assertion, a wrong exception) on the current path
void fail(const std::string& name, const std::string& detail);
// obligation discharged without a solver call (concrete comparison on the current path)
void pass(const std::string& name);
void expect(const std::string& name, bool ok, const std::string& detail = "");
void witness(const std::string& label);  // reachability witness: path condition is satisfiable here
void note(const std::string& key, const std::string& value);
void cut(const std::string& why);  // throw PathCut
// taint: a branch whose condition mentions a symbol with this name prefix is recorded as a violation and the path is cut
void set_taint_prefix(const std::string& prefix, const std::string& obligation_name);
std::vector<std::string> symbols_of(const Real& a);  // names of the symbols the term mentions (syntactically)
bool mentions(const Real& a, const std::string& name_prefix);

// definedness policy for / and sqrt on symbolic operands
enum class Def
{
    Check,   // ask whether the divisor can be 0 / radicand negative; if so record an event, then assume defined
    Assume,  // add the definedness condition to the path as an assumption (counted) without asking
    Ignore   // neither (used inside specification stubs)
};
struct DefScope
{
    Def saved;
    explicit DefScope(Def d);
    ~DefScope();
};
// label attached to events/obligations raised while in scope
struct Scope
{
    explicit Scope(const std::string& s);
    ~Scope();
};

// precision profile: which machine type's eps/min the threshold constants use
enum class Profile
{
    Float,
    Double,
    LongDouble
};
void set_profile(Profile p);
Profile profile();
Real prof_epsilon();
Real prof_min();
Real prof_max();

// bound on the number of decisions on one path (PathCut beyond it)
void set_max_decisions(int n);
// put every new term into polynomial normal form (sum of monomials), so that exact cancellations fold to constants
void set_normalize(bool on);
// per-query wall cap in seconds for solver processes
void set_query_cap(double first, double portfolio);

// ------------------------------------------------------------------------------------------------
// cases and the runner
struct Case
{
    std::string name;
    std::function<void()> body;
};
// argv: --list | --run <substring or regex> [--workers N] [--out file.json] [--serial]
//       [--replay <case> <prefix>] [--model file.json <case>]  (concrete replay)
int run_main(int argc, char** argv, const std::vector<Case>& cases);

// model access in concrete mode
bool model_has(const std::string& name);
double model_value(const std::string& name);

}  // namespace sym

// ------------------------------------------------------------------------------------------------
// std and Eigen glue
namespace std {
template <>
class numeric_limits<sym::Real>
{
public:
    static constexpr bool is_specialized = true;
    static constexpr bool is_signed = true;
    static constexpr bool is_integer = false;
    static constexpr bool is_exact = false;
    static constexpr bool has_infinity = false;
    static constexpr bool has_quiet_NaN = false;
    static constexpr bool has_signaling_NaN = false;
    static constexpr bool is_iec559 = false;
    static constexpr bool is_bounded = true;
    static constexpr bool is_modulo = false;
    static constexpr int digits = 53;
    static constexpr int digits10 = 15;
    static constexpr int max_digits10 = 17;
    static constexpr int radix = 2;
    static constexpr int min_exponent = -1021;
    static constexpr int max_exponent = 1024;
    static constexpr int min_exponent10 = -307;
    static constexpr int max_exponent10 = 308;
    static sym::Real(min)() { return sym::prof_min(); }
    static sym::Real(max)() { return sym::prof_max(); }
    static sym::Real lowest() { return -sym::prof_max(); }
    static sym::Real epsilon() { return sym::prof_epsilon(); }
    static sym::Real round_error() { return sym::Real(0.5); }
    static sym::Real infinity() { return sym::prof_max(); }
    static sym::Real quiet_NaN() { return sym::Real(0); }
    static sym::Real denorm_min() { return sym::prof_min(); }
};
}  // namespace std
