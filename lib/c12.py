"""C12 (constructor part): range checks of the solver constructors decided on the compiler IR (irsym), all 64-bit Index values."""
import os
import sys
import time

import driver as D

sys.path.insert(0, os.path.join(D.VERIF, "irsym"))
import irsym as I

HERM = ["w_SymEigsSolver", "w_SymEigsShiftSolver", "w_HermEigsSolver", "w_HermEigsBase_rvalue"]
GEN = ["w_GenEigsSolver", "w_GenEigsRealShiftSolver", "w_GenEigsComplexShiftSolver"]
NOT_ENCODED = ["w_SymGEigsSolver_Cholesky", "w_SymGEigsSolver_RegularInverse", "w_SymGEigsShiftSolver_ShiftInvert", "w_SymGEigsShiftSolver_Buckling", "w_SymGEigsShiftSolver_Cayley"]


CTOR_EXPR = {"w_SymEigsSolver": "Spectra::SymEigsSolver<Op> e(op, nev, ncv)", "w_SymEigsShiftSolver": "Spectra::SymEigsShiftSolver<Op> e(op, nev, ncv, 0.5)",
             "w_HermEigsSolver": "Spectra::SymEigsSolver<Op> e(op, nev, ncv)", "w_GenEigsSolver": "Spectra::GenEigsSolver<Op> e(op, nev, ncv)",
             "w_GenEigsRealShiftSolver": "Spectra::GenEigsRealShiftSolver<Op> e(op, nev, ncv, 0.5)", "w_GenEigsComplexShiftSolver": "Spectra::GenEigsComplexShiftSolver<Op> e(op, nev, ncv, 0.5, 0.5)",
             # the rvalue-operator constructor is replayed through a real generalized solver class (real std::vector, no stub)
             "w_HermEigsBase_rvalue": "Op bop{n}; Spectra::SymGEigsSolver<Op, Op, Spectra::GEigsMode::RegularInverse> e(op, bop, nev, ncv)"}


def native_replay(ctx, fn, n, nev, ncv):
    """runs the real constructor natively with the solver's (n, nev, ncv); returns 'throws' / 'constructed' / None"""
    import subprocess
    src = os.path.join(ctx.scratch, "replay_ctor_%s.cpp" % fn)
    with open(os.path.join(D.VERIF, "irsym", "wrap_ctor.cpp")) as f:
        head = f.read().split("extern \"C\" void sink")[0]
    with open(src, "w") as g:
        g.write(head + "#include <cstdio>\n#include <cstdlib>\nint main(int, char** a){ long n=atol(a[1]), nev=atol(a[2]), ncv=atol(a[3]); Op op{n};\n"
                "try { %s; std::puts(\"constructed\"); } catch (const std::invalid_argument&) { std::puts(\"throws\"); } return 0; }\n" % CTOR_EXPR[fn])
    exe = src[:-4]
    if not os.path.exists(exe):
        p = subprocess.run(["g++", "-std=c++17", "-O1", "-w", "-I" + os.path.join(D.REPO, "include"), "-I" + D.EIGEN, src, "-o", exe], stdout=subprocess.PIPE, stderr=subprocess.STDOUT, text=True)
        if p.returncode != 0:
            return None
    try:
        p = subprocess.run([exe, str(n), str(nev), str(ncv)], stdout=subprocess.PIPE, stderr=subprocess.STDOUT, text=True, timeout=20)
        return p.stdout.strip().split("\n")[-1]
    except Exception:
        return None


def post(ctx, spec):
    src = os.path.join(ctx.scratch, "wrap_ctor.cpp")
    with open(os.path.join(D.VERIF, "irsym", "wrap_ctor.cpp")) as f, open(src, "w") as g:
        g.write(f.read())
    queries = []
    try:
        t0 = time.time()
        ll = I.compile_ir(src, [os.path.join(D.REPO, "include"), D.EIGEN])
        ctx.compile_secs += time.time() - t0
        funcs = I.parse_module(ll)
    except RuntimeError as e:
        raise D.BuildError("wrap_ctor.cpp", str(e))
    for fn in HERM + GEN + NOT_ENCODED:
        enc = I.Enc("int")
        f = funcs[fn]
        args, ints = [], []
        for ty, nm in f.args:
            if ty == "i64":
                t = enc.fresh(64, nm.strip("%"))
                args.append(t)
                ints.append(t)
            elif ty == "double":
                args.append(None)  # sigma does not take part in the range checks of these constructors
            else:
                args.append(None)
        try:
            paths = I.run_function(funcs, fn, enc, args)
        except I.Inconclusive as e:
            if fn in NOT_ENCODED:
                queries.append({"name": fn + ": constructor range check", "verdict": "not-encoded", "solver": "-", "secs": 0,
                                "detail": "operator moved into a heap container; the size is re-loaded from memory irsym does not model (%s)" % str(e)[:80]})
                continue
            ctx.inconclusive.append({"job": "irsym " + fn, "why": str(e)})
            continue
        n, nev, ncv = [enc.signed(t, 64) for t in ints[:3]]
        if fn in GEN:
            rng = "(and (<= 1 %s) (<= %s (- %s 2)) (<= (+ %s 2) %s) (<= %s %s))" % (nev, nev, n, nev, ncv, ncv, n)
            doc = "1 <= nev <= n-2 and nev+2 <= ncv <= n"
        else:
            rng = "(and (<= 1 %s) (<= %s (- %s 1)) (< %s %s) (<= %s %s))" % (nev, nev, n, nev, ncv, ncv, n)
            doc = "1 <= nev <= n-1 and nev < ncv <= n"
        dom = "(>= %s 0)" % n
        outcomes = sorted(set(p.outcome for p in paths))
        bad_outcomes = [o for o in outcomes if o not in ("throws(_ZTISt16invalid_argument)", "reached(sink)")]
        if bad_outcomes:
            ctx.candidates.append(dict(case="irsym:" + fn, name="constructor outcome", kind="outcome", verdict="sat", scope="", site="", model=None, path="",
                                       detail="constructor can end with %s" % bad_outcomes, binary="", profile="double"))
        for p in paths:
            pc = "(and true %s)" % " ".join(p.conds)
            if p.outcome.startswith("throws"):
                q = [dom, pc, rng]
                what = "%s: throws invalid_argument only outside [%s]" % (fn, doc)
            elif p.outcome.startswith("reached"):
                q = [dom, pc, "(not %s)" % rng]
                what = "%s: accepted only inside [%s]" % (fn, doc)
            else:
                continue
            v, sv, secs, out = I.solve(I.smt(enc, [], q, ints[:3]), solvers=("z3", "z3-new", "cvc5"), cap=60)
            queries.append({"name": what + " (path %s)" % "-".join(p.trace[-3:]), "verdict": v, "solver": sv, "secs": round(secs, 3)})
            if v == "sat":
                import re as _re
                vals = [int(x) for x in _re.findall(r"\|\s+\(?-?\s*(\d+)", out)][:3]
                raw = _re.findall(r"\(\|[^|]+\|\s+(\(-\s*\d+\)|-?\d+)\)", out)
                vals = []
                for r_ in raw[:3]:
                    r_ = r_.replace("(", "").replace(")", "").replace(" ", "")
                    x = int(r_)
                    vals.append(x - (1 << 64) if x >= (1 << 63) else x)
                got = native_replay(ctx, fn, *vals) if len(vals) == 3 and fn in CTOR_EXPR and abs(vals[0]) < (1 << 40) else None
                expect_bad = "throws" if p.outcome.startswith("throws") else "constructed"
                if got == expect_bad:
                    ctx.candidates.append(dict(case="irsym:" + fn, name=what, kind="regression", verdict="sat", scope="", site="", model=None, path="",
                                               detail="native run of the real constructor with (n, nev, ncv) = %s: %s" % (vals, got), binary="", profile="double"))
                else:
                    ctx.inconclusive.append({"job": "irsym " + fn, "why": "counterexample %s for '%s' not reproduced natively (got %s)" % (vals, what, got)})
            elif v != "unsat":
                ctx.inconclusive.append({"job": "irsym " + fn, "why": "no verdict for " + what})
        opaque = sorted(set(sum([p.opaque for p in paths], [])))
        queries.append({"name": fn + ": calls treated as opaque (assumed not to throw / not to change the arguments)", "verdict": "holds", "solver": "IR scan", "secs": 0, "detail": opaque})
    spec["extra_coverage"] = {"irsym_queries": queries, "irsym_discharged": sum(1 for q in queries if q["verdict"] in ("unsat", "holds")), "irsym_total": len(queries),
                              "irsym_not_encoded": [q["name"] for q in queries if q["verdict"] == "not-encoded"]}
    # concrete companions (no solver verdict): the fixed SVD leak, and rejected constructions of every solver class leave no allocation behind
    for src_, args_ in [("c16_svd_cache.cpp", ()), ("c12_rejected_ctor.cpp", ())]:
        D.run_regression(ctx, src_, args_)
