"""C19: internal random generator, decided on the compiler IR of the real functions (irsym)."""
import ctypes
import json
import os
import random
import re
import subprocess
import sys
import time

import driver as D

sys.path.insert(0, os.path.join(D.VERIF, "irsym"))
import irsym as I

M31 = (1 << 31) - 1


def py_eval_next(funcs, s):
    """concrete evaluation of w_next's IR with the SAME formulas as the Int encoding (validates the encoder)"""
    class PyEnc(I.Enc):
        def __init__(self):
            super().__init__("int")
    # evaluate by building the Int term and letting Python compute it
    enc = I.Enc("int")
    paths = I.run_function(funcs, "w_next", enc, [str(s)])
    assert len(paths) == 1
    t = paths[0].ret[1]
    return eval_smt_int(t)


def eval_smt_int(t):
    toks = re.findall(r"\(|\)|[^\s()]+", t)
    pos = 0

    def ev():
        nonlocal pos
        tok = toks[pos]
        pos += 1
        if tok != "(":
            if tok == "true":
                return True
            if tok == "false":
                return False
            return int(tok)
        op = toks[pos]
        pos += 1
        args = []
        while toks[pos] != ")":
            args.append(ev())
        pos += 1
        if op == "+":
            return sum(args)
        if op == "-":
            return -args[0] if len(args) == 1 else args[0] - sum(args[1:])
        if op == "*":
            r = 1
            for a in args:
                r *= a
            return r
        if op == "mod":
            return args[0] % args[1]
        if op == "div":
            return args[0] // args[1]
        if op == "ite":
            return args[1] if args[0] else args[2]
        if op == ">":
            return args[0] > args[1]
        if op == ">=":
            return args[0] >= args[1]
        if op == "<":
            return args[0] < args[1]
        if op == "<=":
            return args[0] <= args[1]
        if op == "=":
            return args[0] == args[1]
        if op == "not":
            return not args[0]
        if op == "and":
            return all(args)
        if op == "or":
            return any(args)
        raise ValueError(op)
    return ev()


def run(ctx, spec):
    t0 = time.time()
    tier = ctx.tier
    src = os.path.join(ctx.scratch, "wrap_rng.cpp")
    with open(os.path.join(D.VERIF, "irsym", "wrap_rng.cpp")) as f, open(src, "w") as g:
        g.write(f.read())
    inc = [os.path.join(D.REPO, "include"), D.EIGEN]
    queries = []
    violations = []
    inconclusive = []
    notes = []
    try:
        ll = I.compile_ir(src, inc)
        funcs = I.parse_module(ll)
        names = ["w_next", "w_ctor", "w_draw_double", "w_draw_float", "w_draw_longdouble", "w_draw_complex_re", "w_draw_complex_im"]
        # ---- (4) purity: no calls, no globals, memory only through the state pointer
        impure = []
        for n in names:
            f = funcs[n]
            for lab in f.order:
                for ins in f.blocks[lab]:
                    if re.search(r"\b(call|invoke)\b", ins) and "@llvm." not in ins:
                        impure.append("%s: %s" % (n, ins[:80]))
                    if re.search(r"@(?!llvm\.)[\w\.]+", ins):
                        impure.append("%s references a global: %s" % (n, ins[:80]))
                    m = re.match(r"(?:%[\w\.]+ = )?(load|store) .*?(%[\w\.]+)(?:, align \d+)?$", ins)
                    if m and m.group(2) not in [a[1] for a in f.args]:
                        impure.append("%s: memory access not through the state argument: %s" % (n, ins[:80]))
        queries.append({"name": "purity: no call, no global, memory only via the state reference", "verdict": "holds" if not impure else "fails", "solver": "IR scan", "secs": 0, "detail": impure[:5]})
        if impure:
            violations.append({"name": "purity", "detail": impure[:5], "model": None})
        # ---- encoder validation: native execution vs the Int-encoding formulas on random states
        so = os.path.join(ctx.scratch, "wrap_rng.so")
        subprocess.check_call(["g++", "-std=c++17", "-O1", "-shared", "-fPIC", "-w"] + ["-I" + d for d in inc] + [src, "-o", so])
        lib = ctypes.CDLL(so)
        lib.w_next.restype = ctypes.c_long
        lib.w_next.argtypes = [ctypes.c_long]
        rnd = random.Random(ctx.seed + 19)
        nval = 2000 if tier == "quick" else 10000
        mism = 0
        samples = []
        for k in range(nval):
            s = rnd.randrange(1, M31) if k > 8 else [1, 2, 65535, 65536, M31 - 1, 127773, 127774, 2836, 16807][k]
            a, b = lib.w_next(s), py_eval_next(funcs, s)
            if a != b:
                mism += 1
            if k < 3:
                samples.append({"state": s, "native": a, "encoding": b, "reference 16807*s mod (2^31-1)": (16807 * s) % M31})
        queries.append({"name": "encoder validation: native w_next == Int-encoding formulas on %d states" % nval, "verdict": "holds" if mism == 0 else "fails", "solver": "differential run", "secs": 0})
        if mism:
            inconclusive.append("encoder validation failed on %d inputs: the translation is broken" % mism)
        # ---- (1) Park-Miller step on all states (Int encoding)
        enc = I.Enc("int")
        s = enc.fresh(64, "state")
        paths = I.run_function(funcs, "w_next", enc, [s])
        if len(paths) != 1:
            raise I.Inconclusive("w_next has %d paths" % len(paths))
        r = paths[0].ret[1]
        pre = ["(<= 1 %s)" % s, "(<= %s %d)" % (s, M31 - 1)]
        neg = "(not (and (= %s (mod (* 16807 %s) %d)) (<= 1 %s) (<= %s %d)))" % (r, s, M31, r, r, M31 - 1)
        cap = 120 if tier == "quick" else 600
        slices = 1 if tier == "quick" else 16
        for k in range(slices):
            lo = 1 + k * ((M31 - 1) // slices)
            hi = M31 - 1 if k == slices - 1 else lo + (M31 - 1) // slices - 1
            rng = ["(<= %d %s)" % (lo, s), "(<= %s %d)" % (s, hi)]
            v, sv, secs, out = I.solve(I.smt(enc, [], pre + rng + [neg], [s]), solvers=("z3-new", "z3", "cvc5"), cap=cap)
            queries.append({"name": "next(s) = 16807*s mod (2^31-1) and in [1, 2^31-2] for all s in [%d, %d]" % (lo, hi), "verdict": v, "solver": sv, "secs": round(secs, 2)})
            if v == "sat":
                mm = re.search(r"\(\|state![0-9]+\|\s+(\d+)\)", out)
                st = int(mm.group(1)) if mm else None
                nat = lib.w_next(st) if st is not None else None
                ref = (16807 * st) % M31 if st is not None else None
                if st is not None and (nat != ref or not (1 <= nat <= M31 - 1)):
                    violations.append({"name": "Park-Miller step", "detail": "state %d: natively compiled next_long_rand returns %d, 16807*s mod (2^31-1) = %d" % (st, nat, ref), "model": {"state": st}})
                else:
                    inconclusive.append("Park-Miller step: solver model %s not reproduced by the native function" % st)
            elif v != "unsat":
                inconclusive.append("Park-Miller step slice %d: no verdict" % k)
        # ---- (2) constructor: seeds 0 and 2i + 123j
        enc = I.Enc("int")
        seed = enc.fresh(64, "seed")
        i = enc.fresh(64, "i")
        j = enc.fresh(64, "j")
        paths = I.run_function(funcs, "w_ctor", enc, [seed])
        r = paths[0].ret[1]
        pre = ["(or (= %s 0) (and (< %s %d) (< %s 5) (= %s (+ (* 2 %s) (* 123 %s)))))" % (seed, i, 1 << 20, j, seed, i, j)]
        neg = "(not (and (<= 1 %s) (<= %s %d)))" % (r, r, M31 - 1)
        v, sv, secs, out = I.solve(I.smt(enc, [], pre + [neg], [seed]), cap=60)
        queries.append({"name": "SimpleRandom(seed) state in [1, 2^31-2] for seed 0 and 2i+123j (i<2^20, j<5)", "verdict": v, "solver": sv, "secs": round(secs, 2)})
        if v == "sat":
            violations.append({"name": "constructor", "detail": out[:300], "model": out})
        elif v != "unsat":
            inconclusive.append("constructor: no verdict")
        # ---- (3) draws in [-0.5, 0.5]: FloatingPoint query on the tail after the state update; the stored state is cut
        #      to a fresh variable constrained by (1), after checking that the stored value IS next(load) syntactically
        encn = I.Enc("bv")
        sn = encn.fresh(64, "state")
        next_term = I.run_function(funcs, "w_next", encn, [sn])[0].ret[1]
        for fn, ty in [("w_draw_float", "float"), ("w_draw_double", "double"), ("w_draw_longdouble", "x86_fp80"), ("w_draw_complex_re", "double"), ("w_draw_complex_im", "double")]:
            enc = I.Enc("bv")
            s0 = enc.fresh(64, "state")
            paths = I.run_function(funcs, fn, enc, [None], mem_cell=(64, s0))
            if len(paths) != 1:
                raise I.Inconclusive("%s has %d paths" % (fn, len(paths)))
            p = paths[0]
            stored = p.store[1]
            ndraws = 2 if "complex" in fn else 1
            # state update = next applied ndraws times
            expect = next_term.replace(sn, s0)
            if ndraws == 2:
                expect = next_term.replace(sn, expect)  # next(next(s0))
            same = (stored == expect)
            queries.append({"name": "%s: stored state is next^%d(loaded state) (same IR term)" % (fn, ndraws), "verdict": "holds" if same else "fails", "solver": "term comparison", "secs": 0})
            if not same:
                inconclusive.append("%s: the state update is not the expected composition of next_long_rand; cut not justified" % fn)
                continue
            # cut: the value converted to floating point is a state in [1, 2^31-2] (by (1)); find which state feeds the conversion
            eb, sb = I.FP[ty]
            t = "|t!cut|"
            conv_src = stored if fn != "w_draw_complex_re" else next_term.replace(sn, s0)
            ret = p.ret[1]
            if conv_src not in ret:
                inconclusive.append("%s: returned value does not convert the expected state" % fn)
                continue
            ret_cut = ret.replace(conv_src, t)
            decls = ["(declare-const %s (_ BitVec 64))" % t]
            half = I.fp_const("5.000000e-01", ty)
            pre = ["(bvuge %s (_ bv1 64))" % t, "(bvule %s (_ bv%d 64))" % (t, M31 - 1)]
            neg = "(not (and (fp.leq (fp.neg %s) %s) (fp.leq %s %s)))" % (half, ret_cut, ret_cut, half)
            enc2 = I.Enc("bv")
            v, sv, secs, out = I.solve(I.smt(enc2, decls, pre + [neg], [t]), solvers=("z3", "z3-new", "cvc5"), cap=300, logic="QF_BVFP")
            queries.append({"name": "%s: every draw lies in [-0.5, 0.5] for all states in [1, 2^31-2] (%s)" % (fn, ty), "verdict": v, "solver": sv, "secs": round(secs, 2)})
            if v == "sat":
                violations.append({"name": fn + " range", "detail": out[:300], "model": out})
            elif v != "unsat":
                inconclusive.append("%s: no verdict" % fn)
        # ---- (5) seed choices at the call sites (syntactic)
        sites = []
        for rel in ["include/Spectra/HermEigsBase.h", "include/Spectra/GenEigsBase.h", "include/Spectra/LinAlg/Arnoldi.h", "include/Spectra/GenEigsComplexShiftSolver.h"]:
            with open(os.path.join(D.REPO, rel)) as f:
                for ln, line in enumerate(f, 1):
                    m = re.search(r"SimpleRandom<\w+>\s+rng\((.*?)\);", line)
                    if m:
                        sites.append({"site": "%s:%d" % (rel, ln), "seed": m.group(1)})
        ok_sites = all(s["seed"] in ("0", "seed + 123 * iter") for s in sites) and len(sites) >= 4
        queries.append({"name": "call sites construct the generator from 0 or seed + 123*iter (seed = 2*i)", "verdict": "holds" if ok_sites else "fails", "solver": "source scan", "secs": 0, "detail": sites})
        if not ok_sites:
            violations.append({"name": "seed choice at a call site outside the proven family", "detail": sites, "model": None})
    except I.Inconclusive as e:
        inconclusive.append("irsym: %s" % e)
    except RuntimeError as e:
        inconclusive.append(str(e)[:500])
    return finish(ctx, spec, queries, violations, inconclusive, notes, samples if 'samples' in dir() else [], t0)


def finish(ctx, spec, queries, violations, inconclusive, notes, samples, t0):
    nob = len(queries)
    dis = sum(1 for q in queries if q["verdict"] in ("unsat", "holds"))
    solver_secs = sum(q.get("secs", 0) for q in queries)
    paths = []
    for v in violations:
        d = os.path.join(D.VERIF, "replays", ctx.pid)
        os.makedirs(d, exist_ok=True)
        import hashlib
        p = os.path.join(d, hashlib.sha1(json.dumps(v, sort_keys=True, default=str).encode()).hexdigest()[:12] + ".json")
        with open(p, "w") as f:
            json.dump({"property": ctx.pid, "violation": v, "how_to_replay": "bin/check %s" % ctx.pid}, f, indent=1, default=str)
        paths.append(p)
    ev = {"property_id": ctx.pid, "tier": ctx.tier, "seed": ctx.seed, "level": "other", "wall_s": round(time.time() - t0, 2), "violations": len(violations),
          "assumptions": spec.get("assumptions", []),
          "coverage": {"explanation": spec["explanation"], "technique": spec["technique"], "functions_encoded": spec.get("functions", []), "bounds": spec.get("bounds", {}),
                       "outside_the_claim": spec.get("outside", []), "obligations": nob, "discharged": dis, "evaluations": nob, "distinct_nontrivial": dis,
                       "rule": "one evaluation = one query / scan listed under 'queries'", "queries": queries, "solver_seconds": round(solver_secs, 2),
                       "checker_cmd": "bin/check %s --tier %s" % (ctx.pid, ctx.tier), "trusted_base": ["clang++-14 (IR of the real functions)", "z3 5.1.0 / z3 4.8.12 / cvc5 1.0.3", "irsym translator (validated against native execution each run)"],
                       "samples": samples or queries[:2], "exhaustive": not inconclusive, "inconclusive": inconclusive, "notes": notes}}
    os.makedirs(D.EVIDENCE_DIR, exist_ok=True)
    with open(os.path.join(D.EVIDENCE_DIR, ctx.pid + ".json"), "w") as f:
        json.dump(ev, f, indent=1, default=str)
    for p in paths:
        print("VIOLATION property=%s replay=%s" % (ctx.pid, p))
    for v in violations:
        print("  %s: %s" % (v["name"], str(v["detail"])[:300]))
    for i in inconclusive:
        print("INCONCLUSIVE property=%s %s" % (ctx.pid, i))
    print("%s tier=%s: %d/%d queries discharged, solver %.1fs, wall %.1fs" % (ctx.pid, ctx.tier, dis, nob, solver_secs, time.time() - t0))
    for q in queries:
        print("   [%s] %s (%s, %ss)" % (q["verdict"], q["name"], q["solver"], q.get("secs", 0)))
    if violations:
        return 1
    if inconclusive or dis != nob:
        return 2
    return 0
