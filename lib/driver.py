#!/usr/bin/env python3
"""Driver for the solver-based checks (see DESIGN.md section 10).

bin/check <ID> [--tier quick|thorough]   (VERIF_TIER / VERIF_SEED are honoured)

Every run: compiles the harnesses against /repo/include of the *current working tree*, runs the symbolic
explorers (symx) / the IR executor (irsym), replays counterexamples on concrete values, matches known findings,
writes /verif/evidence/<ID>.json, prints VIOLATION / KNOWN-FINDING / INCONCLUSIVE lines and exits 0 / 1 / 2.
"""
import atexit
import concurrent.futures as cf
import hashlib
import json
import os
import re
import shutil
import signal
import subprocess
import sys
import tempfile
import time

VERIF = os.path.dirname(os.path.dirname(os.path.abspath(__file__)))
REPO = os.environ.get("VERIF_REPO", "/repo")
EIGEN = "/usr/include/eigen3"
NCPU = int(os.environ.get("VERIF_JOBS", "16"))
# evidence goes to /verif/evidence; development runs against patched copies of the repository (bin/mutrun) redirect it
EVIDENCE_DIR = os.environ.get("VERIF_EVIDENCE_DIR", os.path.join(VERIF, "evidence"))

sys.path.insert(0, os.path.join(VERIF, "lib"))


def log(*a):
    print(*a, file=sys.stderr, flush=True)


class Ctx:
    """State of one check run."""

    def __init__(self, pid, tier, seed):
        self.pid = pid
        self.tier = tier
        self.seed = seed
        self.t0 = time.time()
        self.scratch = tempfile.mkdtemp(prefix="verif_%s_" % pid, dir=os.environ.get("VERIF_SCRATCH", "/tmp"))
        atexit.register(self.cleanup)
        for s in (signal.SIGTERM, signal.SIGINT):
            signal.signal(s, lambda *_: sys.exit(3))
        self.results = []  # list of (job, json)
        self.candidates = []  # violation candidates
        self.inconclusive = []
        self.known_hits = []
        self.violations = []
        self.notes = []
        self.compile_secs = 0.0

    def cleanup(self):
        shutil.rmtree(self.scratch, ignore_errors=True)


def ensure_core():
    obj = os.path.join(VERIF, "build", "symx.o")
    src = [os.path.join(VERIF, "symx", f) for f in ("symx.cpp", "symx.h")]
    if not os.path.exists(obj) or any(os.path.getmtime(s) > os.path.getmtime(obj) for s in src):
        subprocess.check_call(["make", "-C", VERIF, "-j", str(NCPU)], stdout=subprocess.DEVNULL)


def compile_harness(ctx, name, extra_flags=(), sanitize=False, opt="-O1"):
    """Compile /verif/harness/<name>.cpp against the current /repo/include. Returns path of the binary."""
    src = os.path.join(VERIF, "harness", name + ".cpp")
    tag = name + ("_san" if sanitize else "") + hashlib.md5(" ".join(extra_flags).encode()).hexdigest()[:6]
    out = os.path.join(ctx.scratch, tag)
    if os.path.exists(out):
        return out
    cmd = ["g++", "-std=c++17", opt, "-g", "-rdynamic", "-fno-access-control", "-w",
           "-I" + os.path.join(VERIF, "symx"), "-I" + os.path.join(VERIF, "harness"),
           "-I" + os.path.join(REPO, "include"), "-I" + EIGEN]
    if sanitize:
        cmd += ["-fsanitize=address,undefined", "-fno-omit-frame-pointer"]
    cmd += list(extra_flags)
    cmd += [src, os.path.join(VERIF, "build", "symx.o"), "-lz3", "-o", out]
    t0 = time.time()
    p = subprocess.run(cmd, stdout=subprocess.PIPE, stderr=subprocess.STDOUT, text=True)
    ctx.compile_secs += time.time() - t0
    if p.returncode != 0:
        raise BuildError(name, p.stdout[-4000:])
    return out


class BuildError(Exception):
    def __init__(self, name, out):
        super().__init__("harness %s does not compile against the current tree" % name)
        self.name = name
        self.out = out


def compile_all(ctx, specs):
    """specs: list of dict(name=..., flags=[...], sanitize=bool). Parallel compile."""
    outs = {}
    with cf.ThreadPoolExecutor(max_workers=min(NCPU, max(1, len(specs)))) as ex:
        futs = {}
        for s in specs:
            key = (s["name"], tuple(s.get("flags", ())), bool(s.get("sanitize")))
            if key in futs:
                continue
            futs[key] = ex.submit(compile_harness, ctx, s["name"], tuple(s.get("flags", ())), bool(s.get("sanitize")), s.get("opt", "-O1"))
        for key, f in futs.items():
            outs[key] = f.result()
    return outs


def run_symx(ctx, binary, pattern, workers=NCPU, deadline=None, profile=None, cap=None, max_paths=None, env=None, label=None, budget=False):
    """Run one symx harness over the cases matching pattern; returns parsed JSON (or an error record)."""
    import threading
    out = os.path.join(ctx.scratch, "out_%d_%d.json" % (threading.get_ident() % 100000, int(time.time() * 1000) % 1000000))
    cmd = [binary, "--run", pattern, "--workers", str(workers), "--out", out]
    if deadline:
        cmd += ["--deadline", str(deadline)]
    if profile:
        cmd += ["--profile", profile]
    if cap:
        cmd += ["--cap", str(cap[0]), str(cap[1])]
    if max_paths:
        cmd += ["--max-paths", str(max_paths)]
    e = dict(os.environ)
    e["ASAN_OPTIONS"] = "detect_leaks=1:abort_on_error=0:exitcode=99:allocator_may_return_null=1"
    e["UBSAN_OPTIONS"] = "halt_on_error=1:exitcode=98:print_stacktrace=1"
    if env:
        e.update(env)
    t0 = time.time()
    # the harness stops at its deadline between solver calls: allow one full portfolio round on top before the hard kill
    hard = (deadline or 3600) + 120 + ((cap[0] + 2 * cap[1]) if cap else 150)
    try:
        p = subprocess.run(cmd, stdout=subprocess.PIPE, stderr=subprocess.PIPE, text=True, env=e, timeout=hard)
        rc, err = p.returncode, p.stderr
    except subprocess.TimeoutExpired as ex:
        rc, err = -9, "hard timeout"
    rec = {"job": label or pattern, "binary": os.path.basename(binary), "pattern": pattern, "rc": rc,
           "stderr_tail": err[-3000:] if err else "", "wall_s": time.time() - t0, "profile": profile or "double", "budget": bool(budget)}
    if rc == 0 and os.path.exists(out):
        with open(out) as f:
            rec["json"] = json.load(f)
        os.unlink(out)
    ctx.results.append(rec)
    return rec


def run_regression(ctx, src, args=(), label=None, timeout=600):
    """Concrete replay driver of an earlier (fixed) finding: plain `double` instantiation of the real solver on the witness
    family recorded when the defect was found.  Exit code 1 + a WITNESS line = the violation is back."""
    exe = os.path.join(ctx.scratch, "reg_" + os.path.basename(src).replace(".cpp", ""))
    if not os.path.exists(exe):
        cmd = ["g++", "-std=c++17", "-O1", "-w", "-I" + os.path.join(REPO, "include"), "-I" + EIGEN, os.path.join(VERIF, "replay", src), "-o", exe]
        t0 = time.time()
        p = subprocess.run(cmd, stdout=subprocess.PIPE, stderr=subprocess.STDOUT, text=True)
        ctx.compile_secs += time.time() - t0
        if p.returncode != 0:
            raise BuildError(src, p.stdout[-3000:])
    t0 = time.time()
    try:
        p = subprocess.run([exe] + list(args), stdout=subprocess.PIPE, stderr=subprocess.STDOUT, text=True, timeout=timeout)
        rc, out = p.returncode, p.stdout
    except subprocess.TimeoutExpired:
        rc, out = -9, "timeout"
    rec = {"program": src, "args": list(args), "rc": rc, "wall_s": round(time.time() - t0, 2), "output_tail": out[-600:]}
    ctx.regressions = getattr(ctx, "regressions", [])
    ctx.regressions.append(rec)
    name = (label or src) + (" " + " ".join(args) if args else "")
    if rc == 1:
        wit = [l for l in out.splitlines() if l.startswith("WITNESS")]
        ctx.candidates.append(dict(case="regression:" + name, name="regression:" + src, kind="regression", verdict="sat", scope="", site="", model=None, path="",
                                   detail=(wit[0] if wit else out[-300:]), binary="", profile="double"))
    elif rc != 0:
        ctx.inconclusive.append({"job": "regression:" + name, "why": "exit code %s: %s" % (rc, out[-300:])})
    return rec


# ------------------------------------------------------------------------------------------------
# known findings
def load_known():
    p = os.path.join(VERIF, "known_findings.json")
    if not os.path.exists(p):
        return []
    with open(p) as f:
        return json.load(f).get("findings", [])


def match_known(known, pid, cand):
    """cand: dict(case, name, kind, site, scope).  A known entry matches on all regexes it specifies."""
    for k in known:
        if k.get("property") != pid or k.get("status") != "known":
            continue
        m = k.get("match", {})
        ok = True
        for fld in ("case", "name", "kind", "site", "scope", "detail"):
            if fld in m and not re.search(m[fld], str(cand.get(fld, ""))):
                ok = False
                break
        if ok:
            return k
    return None


# ------------------------------------------------------------------------------------------------
def collect(ctx, policy):
    """Turn raw results into candidates / inconclusive items according to the per-property policy.

    policy keys:
      events: 'violation' | 'ignore' | callable(event, case)->bool  (definedness events)
      allow_cut: bool or callable(case)     (truncated paths allowed?)
      expected_outcomes: regex of path outcomes that are fine besides 'completed'
      require_witness: bool
    """
    ev_pol = policy.get("events", "ignore")
    allow_cut = policy.get("allow_cut", False)
    exp_out = re.compile(policy.get("expected_outcomes", r"^(completed|infeasible)$"))
    need_wit = policy.get("require_witness", True)
    for rec in ctx.results:
        job = rec["job"]
        if "json" not in rec:
            ctx.inconclusive.append({"job": job, "why": "harness exit code %s: %s" % (rec["rc"], rec["stderr_tail"][-600:])})
            continue
        j = rec["json"]
        partial = False
        undecided = 0
        if j.get("timed_out"):
            if rec.get("budget"):
                # budgeted job (thorough tier only): the exploration is cut at its time budget by design; what was explored is
                # reported, what was not is stated as outside the claim of this run
                partial = True
                ctx.partial = getattr(ctx, "partial", [])
                ctx.partial.append({"job": job, "paths_explored": sum(c["paths"] for c in j["cases"]),
                                    "cases_started": sum(1 for c in j["cases"] if c["paths"] > 0), "cases": len(j["cases"]),
                                    "note": "time budget reached with a non-empty path work list: the cases of this job are explored PARTIALLY; "
                                            "every explored path was decided, unexplored paths are outside the claim of this run"})
            else:
                ctx.inconclusive.append({"job": job, "why": "deadline reached before the path work list was empty"})
        for c in j["cases"]:
            cname = c["case"]
            if c["paths"] == 0:
                if not partial:
                    ctx.inconclusive.append({"job": job, "case": cname, "why": "no path explored"})
                continue
            for f in c["failing"]:
                item = dict(case=cname, name=f["name"], kind="obligation", verdict=f["verdict"], scope=f.get("scope", ""),
                            model=f.get("model"), path=f.get("path", ""), detail=f.get("detail", ""), solver=f.get("solver", ""),
                            binary=rec["binary"], profile=rec["profile"], site="")
                if f["verdict"] == "sat":
                    ctx.candidates.append(item)
                elif rec.get("budget"):
                    # budgeted job: an obligation the solvers do not decide within the job's caps is part of what the time budget left
                    # undecided - counted and stated in the evidence, like the unexplored paths; it is not a verdict of either kind
                    undecided += 1
                else:
                    ctx.inconclusive.append(dict(item, why="solver returned unknown"))
            if c["failing_total"] > len(c["failing"]):
                ctx.notes.append("%s: %d failing obligations, first %d kept" % (cname, c["failing_total"], len(c["failing"])))
            for e in c["events"]:
                item = dict(case=cname, name=e["kind"], kind="event:" + e["kind"], verdict=e["verdict"], scope=e.get("scope", ""),
                            site=e.get("site", ""), model=e.get("model"), path=e.get("path", ""), count=e["count"], detail="",
                            binary=rec["binary"], profile=rec["profile"])
                pol = ev_pol(e, cname) if callable(ev_pol) else ev_pol
                if pol == "violation" or pol is True:
                    if e["verdict"] == "sat":
                        ctx.candidates.append(item)
                    elif rec.get("budget"):
                        undecided += 1
                    else:
                        ctx.inconclusive.append(dict(item, why="definedness query unknown"))
            for oc, n in c["outcomes"].items():
                if exp_out.search(oc):
                    continue
                if oc.startswith("cut:"):
                    ac = allow_cut(cname) if callable(allow_cut) else allow_cut
                    if not ac and rec.get("budget"):
                        undecided += n
                    elif not ac:
                        ctx.inconclusive.append({"job": job, "case": cname, "why": "%d truncated paths: %s" % (n, oc)})
                    continue
                if oc.startswith("worker-died") and policy.get("worker_died_is_violation"):
                    # the process running the code under test was terminated (std::terminate / abort / signal / sanitizer)
                    ctx.candidates.append(dict(case=cname, name="outcome:process-terminated", kind="outcome", verdict="sat", scope="", site="", model=None, path="",
                                               detail="the process executing this case died (std::terminate, abort, signal or sanitizer report): %s" % rec["stderr_tail"][-300:],
                                               binary=rec["binary"], profile=rec["profile"], count=n))
                    continue
                if oc.startswith("unsupported:") or oc.startswith("z3exception:") or oc.startswith("worker-died") or oc.startswith("replay-divergence"):
                    ctx.inconclusive.append({"job": job, "case": cname, "why": "%d paths ended with %s" % (n, oc)})
                    continue
                # unexpected exception / eigen assertion escaping the code under test
                ctx.candidates.append(dict(case=cname, name="outcome:" + oc.split(":")[0], kind="outcome", verdict="sat", scope="", site="",
                                           model=None, path="", detail=oc, binary=rec["binary"], profile=rec["profile"], count=n))
            if need_wit and not partial:
                ok = any(v.get("sat", 0) > 0 for v in c["witnesses"].values())
                if not ok and c["completed"] > 0:
                    ctx.inconclusive.append({"job": job, "case": cname, "why": "no reachability witness came back sat (vacuous?)"})
            if c.get("unknown_feasibility", 0):
                ctx.notes.append("%s: %d branch-feasibility queries unknown (both sides explored)" % (cname, c["unknown_feasibility"]))
        if undecided:
            ctx.partial = getattr(ctx, "partial", [])
            ctx.partial.append({"job": job, "paths_explored": sum(c["paths"] for c in j["cases"]), "cases_started": sum(1 for c in j["cases"] if c["paths"] > 0), "cases": len(j["cases"]),
                                "undecided_obligations_or_truncated_paths": undecided,
                                "note": "budgeted job: %d obligations / definedness questions / truncated paths stayed undecided within the solver caps of this job; "
                                        "they are outside the claim of this run (no verdict of either kind)" % undecided})


def replay_candidate(ctx, binaries, cand):
    """Concrete replay: run the same case with every symbol fixed to the model value (all arithmetic is then native
    IEEE double arithmetic on the real code).  Returns (confirmed, detail)."""
    if cand["kind"] == "regression":
        return True, "concrete double run of the real solver: " + str(cand.get("detail"))[:200]
    if cand["kind"] == "outcome" and not cand.get("model"):
        return True, "deterministic outcome on an explored path"
    model = cand.get("model")
    if not model:
        return True, "no symbolic input on this path (concrete failure)"
    if any(v is None for v in model.values()):
        return None, "model contains non-rational values"
    binary = binaries.get(cand["binary"])
    if not binary:
        return None, "no binary"
    mf = os.path.join(ctx.scratch, "model_%d.json" % (abs(hash(json.dumps(model, sort_keys=True))) % 10**9))
    with open(mf, "w") as f:
        json.dump(model, f)
    out = mf + ".out"
    cmd = [binary, "--run", "^" + re.escape(cand["case"]) + "$", "--model", mf, "--out", out, "--profile", cand.get("profile", "double")]
    try:
        p = subprocess.run(cmd, stdout=subprocess.PIPE, stderr=subprocess.PIPE, text=True, timeout=300)
    except subprocess.TimeoutExpired:
        return None, "replay timed out"
    if p.returncode != 0 or not os.path.exists(out):
        # a crash / sanitizer report in the concrete run is itself a confirmation for memory-safety candidates
        return (True if p.returncode in (98, 99) else None), "replay exit code %d: %s" % (p.returncode, p.stderr[-400:])
    with open(out) as f:
        j = json.load(f)
    for c in j["cases"]:
        for f_ in c["failing"]:
            if f_["verdict"] == "sat" and (cand["kind"] != "obligation" or f_["name"] == cand["name"]):
                return True, "concrete run violates %s" % f_["name"]
        if cand["kind"].startswith("event"):
            for e in c["events"]:
                if e["kind"] == cand["name"]:
                    return True, "concrete run raises %s at %s" % (e["kind"], e.get("site"))
            for oc in c["outcomes"]:
                if "nonfinite" in oc or oc.startswith("cut:division") or oc.startswith("cut:sqrt"):
                    return True, "concrete run: " + oc
        if cand["kind"] == "outcome":
            for oc in c["outcomes"]:
                if oc.split(":")[0] == cand["detail"].split(":")[0]:
                    return True, "concrete run ends with " + oc[:100]
    return False, "concrete run does not show the failure"


def write_replay_file(ctx, cand, detail):
    d = os.path.join(VERIF, "replays", ctx.pid)
    os.makedirs(d, exist_ok=True)
    payload = {"property": ctx.pid, "case": cand["case"], "obligation": cand["name"], "kind": cand["kind"], "site": cand.get("site"),
               "scope": cand.get("scope"), "path_decisions": cand.get("path"), "model": cand.get("model"), "detail": cand.get("detail"),
               "replay_result": detail, "harness": cand.get("binary"), "harness_flags": (getattr(ctx, "bininfo", {}).get(cand.get("binary")) or {}).get("flags", []),
               "profile": cand.get("profile"),
               "how_to_replay": "bin/check %s --replay <this file>" % ctx.pid}
    h = hashlib.sha1(json.dumps(payload, sort_keys=True).encode()).hexdigest()[:12]
    p = os.path.join(d, h + ".json")
    with open(p, "w") as f:
        json.dump(payload, f, indent=1)
    return p


def summarize(ctx):
    tot = dict(paths=0, completed=0, cut=0, obligations=0, discharged=0, sat=0, unknown=0, queries=0, queries_inproc=0, queries_cli=0,
               solver_secs=0.0, cases=0, free_decisions=0, forced_decisions=0, solver_decided=0)
    by_solver = {}
    samples = []
    case_rows = []
    for rec in ctx.results:
        if "json" not in rec:
            continue
        for c in rec["json"]["cases"]:
            tot["cases"] += 1
            for k in ("paths", "completed", "cut", "obligations", "discharged", "sat", "unknown", "queries", "queries_inproc", "queries_cli",
                      "solver_secs", "free_decisions", "forced_decisions"):
                tot[k] += c[k]
            for s, n in c["by_solver"].items():
                by_solver[s] = by_solver.get(s, 0) + n
                if s not in ("path", "simplifier", "concrete"):
                    tot["solver_decided"] += n
            if len(samples) < 8 and c["sample_obligations"]:
                samples.append({"case": c["case"], "obligation": c["sample_obligations"][0], "paths": c["sample_paths"][:2]})
            case_rows.append({"case": c["case"], "profile": rec["profile"], "paths": c["paths"], "cut": c["cut"], "obligations": c["obligations"],
                              "discharged": c["discharged"], "queries": c["queries"], "wall_s": round(c["wall_s"], 2)})
    return tot, by_solver, samples, case_rows


def finish(ctx, spec, binaries):
    """Replay, match known findings, write evidence, print verdict lines, return the exit code."""
    known = load_known()
    seen_known = {}
    groups = {}
    for cand in ctx.candidates:
        k = match_known(known, ctx.pid, cand)
        if k is not None:
            seen_known.setdefault(k["id"], (k, 0))
            seen_known[k["id"]] = (k, seen_known[k["id"]][1] + 1)
            continue
        # one replay per (case, obligation, site): the other paths of the same class are counted, not replayed again
        key = (cand["case"], cand["name"], cand.get("site"), cand.get("scope"))
        if key in groups:
            groups[key]["more"] += 1
            continue
        groups[key] = cand
        cand["more"] = 0
    for key, cand in groups.items():
        ok, detail = replay_candidate(ctx, binaries, cand)
        if cand["more"]:
            detail += " (+%d further paths with the same failing obligation)" % cand["more"]
        if ok:
            path = write_replay_file(ctx, cand, detail)
            ctx.violations.append(dict(cand, replay=path, replay_detail=detail))
        elif ok is False and spec.get("unconfirmed_is_violation"):
            path = write_replay_file(ctx, cand, detail)
            ctx.violations.append(dict(cand, replay=path, replay_detail=detail))
        else:
            ctx.inconclusive.append(dict(cand, why="counterexample not confirmed by the concrete replay: %s" % detail))
    tot, by_solver, samples, case_rows = summarize(ctx)
    wall = time.time() - ctx.t0
    nviol = len(ctx.violations)
    # evidence
    ev = {
        "property_id": ctx.pid,
        "tier": ctx.tier,
        "seed": ctx.seed,
        "level": "other",
        "wall_s": round(wall, 2),
        "violations": nviol,
        "assumptions": spec.get("assumptions", []),
        "coverage": {
            "explanation": spec["explanation"],
            "technique": spec.get("technique", "symbolic execution of the real templates (symx) + SMT"),
            "functions_encoded": spec.get("functions", []),
            "bounds": spec.get("bounds", {}).get(ctx.tier, spec.get("bounds", {})),
            "outside_the_claim": spec.get("outside", []),
            "stubs_and_assumptions": spec.get("stubs", []),
            "obligations": tot["obligations"],
            "discharged": tot["discharged"],
            "obligations_sat": tot["sat"],
            "obligations_unknown": tot["unknown"],
            "obligations_decided_by_solver": tot["solver_decided"],
            "evaluations": tot["paths"],
            "distinct_nontrivial": tot["completed"],
            "rule": "evaluation = one explored path (one equivalence class of inputs under the branch outcomes of the real code); "
                    "distinct = distinct decision strings; non-trivial = path ran to the end of the harness (completed)",
            "paths_truncated": tot["cut"],
            "exhaustive": (tot["cut"] == 0 and not ctx.inconclusive and not getattr(ctx, "partial", [])),
            "partially_explored_budgeted_jobs": getattr(ctx, "partial", []),
            "cases": tot["cases"],
            "free_decisions": tot["free_decisions"],
            "forced_decisions": tot["forced_decisions"],
            "queries": tot["queries"],
            "queries_in_process_linear": tot["queries_inproc"],
            "queries_solver_processes": tot["queries_cli"],
            "by_solver": by_solver,
            "solver_seconds": round(tot["solver_secs"], 2),
            "compile_seconds": round(ctx.compile_secs, 2),
            "checker_cmd": "bin/check %s --tier %s" % (ctx.pid, ctx.tier),
            "trusted_base": ["g++ 12 / libstdc++ / Eigen 3.4 (execute the instantiated templates)", "z3 4.8.12 (library + CLI), z3 5.1.0, cvc5 1.0.3",
                             "symx term construction (validated by concrete-mode differential runs)"],
            "samples": samples or [{"note": "no solver-decided obligation in this run"}],
            "case_table": case_rows[:400],
            "known_findings_seen": [{"id": k["id"], "count": n} for k, n in seen_known.values()],
            "concrete_regression_replays": getattr(ctx, "regressions", []),
            "inconclusive": ctx.inconclusive[:50],
            "violations_detail": [{k: v for k, v in x.items() if k != "model"} for x in ctx.violations[:50]],
            "notes": ctx.notes[:50] + spec.get("extra_notes", []),
        },
    }
    extra = spec.get("extra_coverage")
    if extra:
        ev["coverage"].update(extra)
    os.makedirs(EVIDENCE_DIR, exist_ok=True)
    with open(os.path.join(EVIDENCE_DIR, ctx.pid + ".json"), "w") as f:
        json.dump(ev, f, indent=1)
    # verdict lines
    for k, n in seen_known.values():
        print("KNOWN-FINDING: property=%s %s [%s; seen on %d obligations/paths]" % (ctx.pid, k["what"], k["id"], n))
    for v in ctx.violations:
        print("VIOLATION property=%s replay=%s" % (ctx.pid, v["replay"]))
        print("  case=%s obligation=%s site=%s detail=%s (%s)" % (v["case"], v["name"], v.get("site"), str(v.get("detail"))[:200], v["replay_detail"]))
    for pj in getattr(ctx, "partial", []):
        if pj.get("undecided_obligations_or_truncated_paths"):
            print("PARTIAL property=%s budgeted job '%s': %d obligations / paths undecided within the job's solver caps (stated in the evidence)" % (ctx.pid, pj["job"], pj["undecided_obligations_or_truncated_paths"]))
        else:
            print("PARTIAL property=%s budgeted job '%s': %d paths explored and decided, work list not empty at the time budget (stated in the evidence)" % (ctx.pid, pj["job"], pj["paths_explored"]))
    for inc in ctx.inconclusive[:20]:
        print("INCONCLUSIVE property=%s %s" % (ctx.pid, json.dumps({k: v for k, v in inc.items() if k not in ("model",)})[:400]))
    print("%s tier=%s: %d cases, %d paths (%d truncated), %d/%d obligations discharged, %d sat, %d unknown, %d queries, solver %.1fs, wall %.1fs"
          % (ctx.pid, ctx.tier, tot["cases"], tot["paths"], tot["cut"], tot["discharged"], tot["obligations"], tot["sat"], tot["unknown"],
             tot["queries"], tot["solver_secs"], wall))
    if nviol:
        return 1
    if ctx.inconclusive:
        return 2
    if tot["obligations"] == 0:
        print("INCONCLUSIVE property=%s no obligation was discharged" % ctx.pid)
        return 2
    return 0


def main():
    import argparse
    ap = argparse.ArgumentParser()
    ap.add_argument("pid")
    ap.add_argument("--tier", default=os.environ.get("VERIF_TIER", "quick"))
    ap.add_argument("--replay", default=None)
    ap.add_argument("--only", default=None, help="regex restricting jobs (debugging)")
    a = ap.parse_args()
    seed = int(os.environ.get("VERIF_SEED", "0") or 0)
    import checks
    spec = checks.SPECS.get(a.pid)
    if spec is None:
        print("no check registered for", a.pid)
        return 2
    ensure_core()
    ctx = Ctx(a.pid, a.tier, seed)
    ctx.only = a.only
    try:
        if a.replay:
            return checks.replay_file(ctx, spec, a.replay)
        return spec["run"](ctx, spec)
    except BuildError as e:
        print("INCONCLUSIVE property=%s %s" % (a.pid, e))
        print(e.out[-2500:])
        # a harness that no longer compiles against the tree cannot decide anything; evidence says so
        ev = {"property_id": a.pid, "tier": a.tier, "seed": seed, "level": "other", "wall_s": round(time.time() - ctx.t0, 2), "violations": 0,
              "coverage": {"explanation": "harness %s failed to compile against the current tree; nothing was decided" % e.name,
                           "obligations": 0, "discharged": 0}}
        os.makedirs(EVIDENCE_DIR, exist_ok=True)
        with open(os.path.join(EVIDENCE_DIR, a.pid + ".json"), "w") as f:
            json.dump(ev, f, indent=1)
        return 2


if __name__ == "__main__":
    sys.exit(main())
