"""Per-property check definitions: which harness cases run at which tier, the policy that turns raw solver
verdicts into violations, and the text that goes into the evidence."""
import json
import os
import re

import driver as D

SPECS = {}

ROUNDING = ("rounding: floating point is modelled as exact real arithmetic with definedness obligations; n*eps accuracy clauses, "
            "overflow/underflow and loss of orthogonality are outside the claim")


def std_run(ctx, spec):
    """Generic runner: compile the harnesses of this tier's jobs, run them, collect, finish."""
    jobs = [j for j in spec["jobs"](ctx.tier) if not getattr(ctx, "only", None) or re.search(ctx.only, j.get("label", j["pattern"]))]
    bins = D.compile_all(ctx, [dict(name=j["harness"], flags=j.get("flags", ()), sanitize=j.get("sanitize", False)) for j in jobs])
    binaries = {}
    import concurrent.futures as cf
    # jobs run concurrently (solver processes dominate; the 16 cores are shared by the workers of all jobs)
    with cf.ThreadPoolExecutor(max_workers=max(1, len(jobs))) as ex:
        futs = []
        for j in jobs:
            b = bins[(j["harness"], tuple(j.get("flags", ())), bool(j.get("sanitize", False)))]
            binaries[os.path.basename(b)] = b
            ctx.bininfo = getattr(ctx, "bininfo", {})
            ctx.bininfo[os.path.basename(b)] = dict(name=j["harness"], flags=list(j.get("flags", ())), sanitize=bool(j.get("sanitize", False)))
            w = j.get("workers", D.NCPU if len(jobs) == 1 else max(6, D.NCPU // 2))
            # for jobs that must finish (not time-budgeted) the deadline only guards against hangs: the tables are sized for ~1/3 of it on an idle 16-core machine
            deadline = j.get("deadline")
            if deadline and not j.get("budget"):
                deadline = int(deadline * 2.5)
            futs.append(ex.submit(D.run_symx, ctx, b, j["pattern"], workers=w, deadline=deadline, profile=j.get("profile"),
                                  cap=j.get("cap"), max_paths=j.get("max_paths"), label=j.get("label"), env=j.get("env"), budget=j.get("budget", False)))
        for f in futs:
            f.result()
    D.collect(ctx, spec.get("policy", {}))
    post = spec.get("post")
    if post:
        post(ctx, spec)
    return D.finish(ctx, spec, binaries)


def replay_file(ctx, spec, path):
    with open(path) as f:
        r = json.load(f)
    bins = D.compile_all(ctx, [dict(name=re.sub(r"(_san)?[0-9a-f]{6}$", "", r["harness"]), sanitize="_san" in r["harness"], flags=tuple(r.get("harness_flags") or ()))])
    b = list(bins.values())[0]
    cand = dict(case=r["case"], name=r["obligation"], kind=r["kind"], model=r["model"], binary=os.path.basename(b), profile=r.get("profile", "double"),
                detail=r.get("detail", ""))
    ok, detail = D.replay_candidate(ctx, {os.path.basename(b): b}, cand)
    print("replay:", "REPRODUCED" if ok else "not reproduced", "-", detail)
    return 1 if ok else 0


# ------------------------------------------------------------------------------------------------
# C18: ordering primitive
def c18_jobs(tier):
    if tier == "quick":
        return [dict(harness="c18_sort", pattern=r"^argsort/real/.*/len[0-5]$|^argsort/real-prefix/", label="argsort real len<=5"),
                dict(harness="c18_sort", pattern=r"^sorteig/complex/.*/len[0-4]$", label="SortEigenvalue complex len<=4")]
    return [dict(harness="c18_sort", pattern=r"^argsort/real", label="argsort real len<=6", deadline=1500),
            dict(harness="c18_sort", pattern=r"^sorteig/complex/", label="SortEigenvalue complex len<=5", deadline=1500)]


SPECS["C18"] = dict(
    run=std_run, jobs=c18_jobs,
    explanation=("The real Spectra::argsort<Scalar> / SortEigenvalue<T,Rule> / SortingTarget templates are instantiated with a z3-backed scalar and "
                 "executed on fully symbolic value vectors; libstdc++'s std::sort runs natively and every key comparison is a fork decided by the "
                 "solver, so the explored paths partition ALL real (resp. complex) vectors of the given length, ties included (a tie lies on the "
                 "path whose conditions are its non-strict closure). On each path the solver proves: result is a permutation; consecutive keys are "
                 "ordered by a reference key written independently of the library; BothEnds: for every k the first k positions hold the ceil(k/2) "
                 "largest and floor(k/2) smallest values; rules undefined for real vectors make argsort throw std::invalid_argument."),
    functions=["Spectra::argsort<sym::Real>", "Spectra::SortEigenvalue<sym::Real, Rule>", "Spectra::SortEigenvalue<std::complex<sym::Real>, Rule>",
               "Spectra::SortingTarget<T, Rule>::get (all specializations reached)", "std::sort (libstdc++, native)"],
    bounds={"quick": {"real_vector_length": "0..5 (+ prefix sort len 3 of 5)", "complex_vector_length": "0..4", "rules": "all 9 (real), 6 (complex)"},
            "thorough": {"real_vector_length": "0..6", "complex_vector_length": "0..5", "rules": "all 9 (real), 6 (complex)"}},
    outside=["vectors longer than the bound (introsort's heap-sort / insertion-sort split beyond 16 elements is not explored)",
             "rule rejection by the solvers' sort_ritzpair/retrieve_ritzpair is decided under C12"],
    assumptions=["complex magnitude |x| is the exact real sqrt(re^2+im^2) (std::abs(complex) specialised to avoid libstdc++'s scaling branches)"],
    policy=dict(events="violation", allow_cut=False),
    technique="symbolic execution of the real templates (Scalar = z3 term) with path enumeration; z3 decides every ordering obligation per path",
    level_text=("bounded symbolic verification: for every real vector of length <= 5 (6 thorough) and complex vector of length <= 4 (5), on every "
                "path of the real argsort/SortEigenvalue code the solver proves permutation + ordering + BothEnds interleaving; complete over "
                "values (ties included) within the length bound"),
    level_note="lengths beyond the bound are not covered; trusted: g++/libstdc++ std::sort executing natively, z3, the symx term builder",
)


# ------------------------------------------------------------------------------------------------
# C08: shifted QR helpers
def c08_jobs(tier):
    full = {"VERIF_DEFLATED_OBLIGATIONS": "1", "VERIF_C08_FIRSTCOL": "1"}
    if tier == "quick":
        return [dict(harness="c08_rot", pattern=r"^rotation/|^dsqr/stable_", label="leaf kernels (double profile)", deadline=240),
                dict(harness="c08_refl", pattern=r".", label="compute_reflector with leaf contracts", deadline=120),
                dict(harness="c08_qr", pattern=r"^hess/n[23]/|^tridiag/n[23]/|^tridiag-exact-shift/n2", label="UpperHessenbergQR/TridiagQR n<=3", deadline=280),
                dict(harness="c08_dsqr", pattern=r"^dsqr/n3/zero|^dsqr/n4/zero02|^dsqr/n4/zero1", label="DoubleShiftQR deflated blocks", deadline=200)]
    return c08_jobs("quick") + [
            dict(harness="c08_rot", pattern=r"^rotation/|^dsqr/stable_", label="leaf kernels (float)", profile="float", deadline=600),
            dict(harness="c08_rot", pattern=r"^rotation/|^dsqr/stable_", label="leaf kernels (long double)", profile="longdouble", deadline=600),
            dict(harness="c08_qr", pattern=r"^hess/|^tridiag/n[234]/|^tridiag-exact-shift/", label="UpperHessenbergQR n<=5 / TridiagQR n<=4 [budgeted]", deadline=1200, env=full,
                 cap=(20, 120), budget=True),
            dict(harness="c08_dsqr", pattern=r"^dsqr/n[34]/", label="DoubleShiftQR n<=4 incl. unreduced blocks [budgeted]", deadline=1200, env=full, cap=(20, 120), budget=True)]


SPECS["C08"] = dict(
    run=std_run, jobs=c08_jobs,
    explanation=("Real code of UpperHessenbergQR, TridiagQR and DoubleShiftQR executed on fully symbolic Hessenberg / tridiagonal matrices and shifts "
                 "(entries below the sub-diagonal are independent junk symbols that must not influence any result). Compositional: (1) the leaf kernels "
                 "compute_rotation/stable_scaling, stable_norm3, stable_scaling(x1,x2,x3) are executed whole on symbolic inputs, all paths, against their "
                 "contract (c^2+s^2=1, r=cx-sy>=0, sx+cy=0, special cases exact; r^2=sum x_i^2; unit, parallel, same direction) with the Taylor branches "
                 "allowed a relative tolerance 1e-4*eps; (2) compute_reflector is executed with those leaves replaced by their contracts and proven to yield a unit "
                 "u with (I-2uu')x parallel to e1, nr as documented; (3) the class-level code (compute, matrix_R, matrix_QtHQ, apply_QY/QtY/YQ/YQt, "
                 "update_block, apply_PX/XP) is executed with the rotation / reflector replaced by that contract, and z3 proves entry by entry: Q'Q=I, R upper "
                 "triangular, QR=H-sI (after the documented deflation of negligible sub-diagonals), matrix_QtHQ = Q'HQ with Hessenberg / symmetric tridiagonal "
                 "shape, every apply method equals the explicit product, DoubleShiftQR: Q orthogonal, Q'HQ Hessenberg and equal to matrix_QtHQ, block splitting at zero "
                 "sub-diagonals, exact-eigenvalue shift deflates the last row (n=2; n=3 thorough)."),
    functions=["UpperHessenbergQR<S>::compute_rotation, stable_scaling, compute, matrix_R, matrix_QtHQ, apply_QY/QtY (vector+matrix), apply_YQ, apply_YQt",
               "TridiagQR<S>::compute, matrix_R, matrix_QtHQ", "DoubleShiftQR<S>::stable_norm3, stable_scaling, compute_reflector, update_block, apply_PX (both), apply_XP, "
               "compute, matrix_QtHQ, apply_QtY, apply_YQ"],
    bounds={"quick": {"UpperHessenbergQR": "n=2,3 (+ zero sub-diagonal patterns)", "TridiagQR": "n=2,3 (+ zero patterns), all deflation paths", "DoubleShiftQR": "n=3 and n=4 with at least one exact-zero "
                      "sub-diagonal (blocks of size 1-2); unreduced 3x3/4x4 blocks (Householder bulge chase) are thorough-tier only", "leaf kernels": "all paths, double thresholds",
                      "skipped": "result-deflation tolerance obligations and DoubleShiftQR first-column obligations (thorough only)"},
            "thorough": {"UpperHessenbergQR": "n<=5", "TridiagQR": "n<=4", "DoubleShiftQR": "n<=4 incl. unreduced", "leaf kernels": "float/double/long double thresholds"}},
    outside=[ROUNDING, "the underflow regime: reflector inputs with 0 < |x| < ~1e-200 (near_0 thresholds) are excluded by assumption", "n beyond the bound",
             "the Taylor branches are accepted with relative tolerance 1e-4*eps and callers assume the exact contract"],
    stubs=["class-level runs: compute_rotation := fresh (c,s,r) with c^2+s^2=1, r=cx-sy>=0, sx+cy=0 (exact special case when y is structurally 0)",
           "DoubleShiftQR class-level runs: compute_reflector := fresh unit u with x2=2u1(u.x), x3=2u2(u.x); nr by exact-zero tests",
           "compute_reflector run: stable_norm3, stable_scaling3, Eigen::numext::hypot := exact sqrt contracts"],
    assumptions=["exact real arithmetic", "Eigen::numext::hypot returns sqrt(x^2+y^2)"],
    policy=dict(events="violation", allow_cut=False),
    technique="symbolic execution of the real QR templates on symbolic matrices (contracts for leaf kernels, each checked on the real leaf); z3/cvc5 NRA verdict per matrix entry",
    level_text=("bounded symbolic verification in exact real arithmetic: all Hessenberg/tridiagonal matrices and shifts of size n<=3 (thorough: up to 5/4/4), every path of "
                "the real code; algebraic identities proven entry-wise by the SMT solver; rounding-level clauses are outside the claim"),
    level_note="compositional via kernel contracts; rounding, underflow thresholds and n above the bound not covered; trusted: g++, Eigen, z3/cvc5, symx",
)


# ------------------------------------------------------------------------------------------------
# C10: Bunch-Kaufman LDLT
def c10_jobs(tier):
    if tier == "quick":
        return [dict(harness="c10_bkldlt", pattern=r"^bk/n[12]/|^bk-lower-vs-upper/n[12]$|^bk-reuse|^wrapper/.*/n[12]$|^wrapper-reuse/|^bk-complex/n[12]/", label="n<=2, all layouts, real+complex; re-used objects", deadline=200),
                dict(harness="c10_bkldlt", pattern=r"^bk/n3/(lower|upper)/colmajor/shift|^bk/n3/upper/rowmajor/shift", label="n=3 real", deadline=280),
                dict(harness="c10_bkldlt", pattern=r"^bk-pivot-rule/", label="pivot search + selection = Bunch-Kaufman rule, arbitrary reduced matrices n<=5, every step k", deadline=200)]
    return c10_jobs("quick") + [dict(harness="c10_bkldlt", pattern=r"^bk/n3/|^bk-lower-vs-upper/n3$|^wrapper/.*/n3$", label="n=3 real all layouts, wrappers n=3 [budgeted]", deadline=1200, budget=True),
            dict(harness="c10_bkldlt", pattern=r"^bk-complex/n3/", label="n=3 complex Hermitian [budgeted]", deadline=1200, cap=(20, 120), budget=True),
            dict(harness="c10_bkldlt", pattern=r"^bk/n4/lower/colmajor/shift", label="n=4 real [budgeted]", deadline=1200, cap=(20, 120), budget=True),
            dict(harness="c10_bkldlt", pattern=r"^bk-growth/n3/step1/", label="element-growth bound after one real elimination step, n=3 [budgeted]", deadline=900, cap=(20, 200), budget=True)]


SPECS["C10"] = dict(
    run=std_run, jobs=c10_jobs,
    explanation=("Real BKLDLT<S> (compute, copy_data, permutate_mat, find_lambda/find_sigma, pivoting_1x1/2x2, interchange_rows, gaussian_elimination_1x1/2x2, "
                 "solve_left_2x2, solve_inplace, solve_inplace_2x2, compress_permutation) executed on a fully symbolic matrix: the designated triangle holds the "
                 "symmetric/Hermitian matrix, every entry of the other triangle is an independent junk symbol, shift and right-hand side symbolic. Every pivoting "
                 "decision is a fork decided by the solver, so the paths partition all matrices of that size. Per path z3 proves: info() is Successful or "
                 "NumericalIssue; Successful => (A_tri - sigma I) x = b entry-wise and no divisor can be zero; NumericalIssue => det(A - sigma I) = 0 (only exactly "
                 "singular matrices are refused); the solution mentions no junk symbol; lower and upper triangle of the same matrix give identical results; column- and "
                 "row-major input; solve_inplace on a segment; a reused object reports its own status; DenseSymShiftSolve::set_shift throws invalid_argument only for "
                 "singular matrices and its perform_op solves the shifted system. Stability mechanism (the exact-arithmetic core of the c*n*eps clause): the real permutate_mat (find_lambda, find_sigma, "
                 "pivoting_1x1/2x2, interchange_rows) is run from an ARBITRARY reduced matrix (every stored entry a symbol, n<=5, every elimination step k) and z3 proves that the permutation it applies is the one it records and that each "
                 "kind of pivot is only taken under the Bunch-Kaufman condition that bounds element growth (lambda, any arg-max row r, sigma over the WHOLE column r; non-strict inequalities, so tie-breaking "
                 "and boundary conventions are not prescribed); thorough "
                 "tier: after one real elimination step every entry of the reduced matrix is within (1+1/alpha) resp. (1+2/(1-alpha)) times max|a_ij| (n=3, normalised scaling)."),
    functions=["Spectra::BKLDLT<sym::Real> and BKLDLT<std::complex<sym::Real>> (all members)", "Spectra::DenseSymShiftSolve<sym::Real, Lower|Upper>::set_shift, perform_op"],
    bounds={"quick": {"real": "n=1,2 all layouts; n=3 three layouts", "complex Hermitian": "n=1,2 all four layouts", "wrappers": "n=1,2", "pivot rule": "n=2..5, every step k, all stored entries symbolic"},
            "thorough": {"real": "n<=3 all layouts, n=4 lower/col-major", "complex Hermitian": "n<=3", "wrappers": "n<=3", "growth bound": "n=3, first step, max sub-column entry normalised to 1"}},
    outside=[ROUNDING, "the c*n*eps residual bound itself (only its mechanism - the pivot rule and, thorough, one-step element growth - is decided)", "sizes above the bound",
             "growth-bound cases: invariance of rule and bound under A -> cA and sign similarities is argued, not proven (normalisation)"],
    assumptions=["exact real arithmetic"],
    policy=dict(events="violation", allow_cut=False),
    technique="symbolic execution of the real BKLDLT template on symbolic matrices, all pivoting paths; z3/cvc5 NRA verdict per residual entry and per singularity claim",
    level_text=("bounded symbolic verification in exact real arithmetic: every symmetric (Hermitian) matrix, shift and right-hand side of size n<=3 (thorough 4 / complex 3), "
                "every pivoting path of the real code; residual identities and the 'refused only if singular' claim proven by the SMT solver; the pivot selection is proven to obey the "
                "Bunch-Kaufman growth conditions for every reduced matrix up to 5x5 (mechanism of the backward-error clause)"),
    level_note="rounding and sizes above the bound not covered; trusted: g++, Eigen, z3/cvc5, symx",
)


# ------------------------------------------------------------------------------------------------
# mode A: solver glue on kernel contracts (C01, C02, C04, C05, C12, C13)
GLUE_STUBS = ["K1 TridiagEigen<S> / K2 UpperHessenbergEigen<S>: fresh Ritz values and vectors per call (K2: real values have imaginary part exactly 0, complex ones are adjacent "
              "exact conjugates; the real/complex pattern is a nondeterministic choice explored exhaustively)",
              "K3 Arnoldi::init, Lanczos/Arnoldi::factorize_from, compress_V: fresh (V,H,f,beta>=0), counter advanced by the number of applications, beta=0 when the basis spans the whole "
              "space; the stub checks its precondition 'the stored factorization is valid at dimension from_k'",
              "K4 TridiagQR / UpperHessenbergQR / DoubleShiftQR: record the shift, return a fresh (tridiagonal / Hessenberg) Q'HQ",
              "each contract is checked on the real kernel under C07 (K3), C08 (K4), C09 (K1, K2, small n)"]
GLUE_ASSUME = ["exact real arithmetic", "kernels behave as their contracts (assume-guarantee; the real kernels are checked separately)",
               "general solver: no exact tie in the selection key between a complex Ritz value and a value other than its conjugate, and no two coinciding conjugate pairs "
               "(without this the solver finds Ritz states for which GenEigsBase::restart indexes m_ritz_val[ncv]; no public-API input reproducing them was found in 1.5e5 concrete runs)"]
GLUE_FUNCS_SYM = ["HermEigsBase::init, compute, restart, num_converged, nev_adjusted, retrieve_ritzpair, sort_ritzpair, eigenvalues, eigenvectors(nvec), info, num_operations",
                  "SymEigsSolver ctor, SymEigsShiftSolver ctor + sort_ritzpair", "Spectra::argsort", "Lanczos::compress_H"]
GLUE_FUNCS_GEN = ["GenEigsComplexShiftSolver::sort_ritzpair (C02)", "GenEigsBase::init, compute, restart, num_converged, nev_adjusted, retrieve_ritzpair, sort_ritzpair, eigenvalues, eigenvectors(nvec), is_complex, is_conj",
                  "GenEigsSolver ctor, GenEigsRealShiftSolver ctor + sort_ritzpair", "SortEigenvalue<complex, Rule>", "Arnoldi::compress_H (both overloads)"]


def reg_post(programs):
    def post(ctx, spec):
        for src, args in programs:
            D.run_regression(ctx, src, args)
    return post


def c01_jobs(tier):
    if tier == "quick":
        return [dict(harness="sym_glue", pattern=r"^sym/n4k2m3/[A-Za-z]+/LargestAlge/maxit0/ic(/symtol)?$|^sym/n4k2m3/(LargestMagn|SmallestAlge|BothEnds)/LargestAlge/maxit1/ic$|^symshift/n4k2m3/.*/maxit0/|^symshift/n4k2m3/LargestMagn/.*/maxit1/|^hist/n3k1m2/.*/maxit[01]/|^sym/n3k1m2/.*/maxit2/ic$|^hist2/n3k1m2/",
                     label="symmetric glue (4,2,3) maxit<=1, (3,1,2) maxit<=2, histories incl. a second compute() with other rule / maxit", deadline=280)]
    return c01_jobs("quick") + [dict(harness="sym_glue", pattern=r"^sym/n(5k2m4|5k3m4|6k1m3|6k2m5)/LargestMagn/LargestAlge/maxit[01]/ic$|^sym/n5k2m4/(BothEnds|SmallestAlge)/LargestAlge/maxit[01]/ic$|^hist/n4k2m3/.*/maxit0/|^sym/n3k1m2/.*/maxit3/ic$|^hist2/n4k2m3/.*-maxit0$|^sym/n4k2m3/(SmallestMagn|LargestAlge)/LargestAlge/maxit1/ic(/symtol)?$|^sym/n4k2m3/LargestMagn/LargestAlge/maxit1/ic/symtol$|^symshift/n4k2m3/BothEnds/.*/maxit1/",
                                     label="larger sizes (5,2,4) (5,3,4) (6,1,3) (6,2,5) maxit<=1, (3,1,2) maxit 3, histories (4,2,3) [budgeted]", deadline=700, budget=True)]


SPECS["C01"] = dict(
    run=std_run, jobs=c01_jobs, post=reg_post([("c01_stale_flags.cpp", ()), ("c01_compute_twice.cpp", ())]),
    explanation=("Generation consistency of the symmetric solvers over call histories, decided on the REAL glue code (HermEigsBase / SymEigsSolver / SymEigsShiftSolver / argsort) executed "
                 "symbolically on top of kernel contracts: Ritz values, Ritz vectors, residual norm and tol-scaled thresholds are symbols, every comparison in num_converged / nev_adjusted / "
                 "std::sort forks, so the paths cover every Ritz data the kernels may produce. After every compute() the solver proves for each pair handed back: it is a Ritz pair of the "
                 "LATEST decomposition of the CURRENT factorization (the one eigenvectors() multiplies by V), it passed |est|*beta < tol*max(eps^(2/3),|theta|) on that factorization (in exact "
                 "arithmetic this is ||Ax-theta x|| < tol*scale because A(Vy)-theta(Vy)=f*y_last under the Krylov invariant of C07), its vector is V*y of the same index, no pair is returned twice, "
                 "and the kernels were only called inside their contract (factorize_from on a factorization valid at from_k). Histories: init;compute(maxit) / init;compute;compute / "
                 "init;compute;init;compute / init;compute(rule1,maxit1);compute(rule2,maxit2) with maxit2 = 0 included (the arguments of the latest call govern), symbolic tol, shift-and-invert back-transformation 1/nu+sigma. Two concrete replay drivers of the defects found and fixed this way are re-run on every check."),
    functions=GLUE_FUNCS_SYM, stubs=GLUE_STUBS, assumptions=GLUE_ASSUME,
    bounds={"quick": {"(n,nev,ncv)": "(4,2,3) maxit 0,1; (3,1,2) maxit 0..2", "rules": "5 selection rules", "histories": "ic, icc, icic, icC (second compute with other rule/maxit, (3,1,2))"},
            "thorough": {"(n,nev,ncv)": "(3,1,2),(4,2,3),(5,2,4),(5,3,4),(6,1,3) maxit<=2 (3 for (3,1,2))", "histories": "ic, icc, icic, icC (also (4,2,3))"}},
    outside=[ROUNDING, "orthonormality X'X=I of the returned vectors relies on V'V=I (C07) and Z'Z=I (C09)", "HermEigsSolver (complex Hermitian) shares HermEigsBase; not instantiated separately",
             "convergence of the iteration itself"],
    policy=dict(events="ignore", allow_cut=False),
    technique="symbolic execution of the real solver glue over kernel contracts (assume-guarantee); z3 decides per path that every returned pair passed the convergence test on the current factorization",
    level_text=("bounded symbolic verification of the solver's sequencing logic: all Ritz data / residual norms / tolerances, every path of the real restart loop up to maxit<=1..3 at sizes up to (6,1,3); "
                "kernels abstracted by contracts that are checked separately"),
    level_note="assume-guarantee over K1,K3,K4; exact arithmetic; small (n,nev,ncv,maxit); trusted: g++, Eigen, z3, symx",
)


def c02_jobs(tier):
    cs = dict(harness="c02_cshift", pattern=r"^cshift/real-lambda/", label="complex-shift solver: back-transformation and root selection from an arbitrary Ritz state (real eigenvalues, three shifts)", deadline=120)
    if tier == "quick":
        return [cs, dict(harness="gen_glue", pattern=r"^gen/n5k1m3/[A-Za-z]+/LargestMagn/maxit[01]/ic$|^genshift/n5k1m3/.*/maxit[01]/|^genhist/n5k1m3/.*/maxit0/|^gen/n5k2m4/(LargestMagn/LargestMagn|LargestReal/SmallestReal|LargestMagn/SmallestImag)/maxit0/|^genshift/n5k2m4/.*/maxit0/|^genhist2/.*/maxit0/icC(/shift)?/then-.*-maxit0$|^genfull2/n3k1m3/.*-maxit0$",
                     label="general glue (5,1,3) maxit<=1, (5,2,4) maxit 0, histories incl. a second compute() with other rule", deadline=280)]
    return c02_jobs("quick") + [dict(harness="c02_cshift", pattern=r"^cshift/complex-lambda/", label="complex-shift solver, complex eigenvalue [budgeted; undecided within the caps so far]", deadline=400, cap=(20, 120), budget=True),
                                dict(harness="gen_glue", pattern=r"^gen/n(5k2m4|6k2m5|6k3m5|7k1m6)/LargestMagn/LargestMagn/maxit[01]/ic$|^gen/n5k2m4/(LargestReal|SmallestImag)/LargestMagn/maxit1/ic$|^genhist/n5k1m3/.*/maxit1/|^genhist2/",
                                     label="larger sizes (5,2,4) (6,2,5) (6,3,5) (7,1,6) maxit<=1, histories maxit 1 [budgeted]", deadline=700, budget=True)]


SPECS["C02"] = dict(
    run=std_run, jobs=c02_jobs, post=reg_post([("c01_stale_flags.cpp", ("gen",)), ("c01_compute_twice.cpp", ("gen",))]),
    explanation=("Same decision as C01 for the general solvers: the real GenEigsBase / GenEigsSolver / GenEigsRealShiftSolver glue runs symbolically over contracts for the Arnoldi kernels, the "
                 "Hessenberg eigen-solver (complex Ritz data: real values with imaginary part exactly 0, complex ones as adjacent exact conjugates, pattern chosen nondeterministically) and the QR "
                 "helpers. Proven per path: every returned (lambda,x) is a Ritz pair of the latest decomposition of the current factorization, passed the convergence test on it, x = V*y of the same "
                 "index, no pair twice (no eigenvalue overwritten by its neighbour), lambda is reported in A's spectrum (sigma + 1/nu in complex arithmetic for the real-shift solver), every applied "
                 "double shift is (2 Re mu, |mu|^2) of an unwanted Ritz value whose conjugate is stored next to it, a single real shift is only taken from a value with imaginary part 0, and the "
                 "kept dimension never splits a conjugate pair. GenEigsComplexShiftSolver::sort_ritzpair (real code) from an arbitrary Ritz state with a specification stub for the user's "
                 "shift-solve operator: for a symbolic real eigenvalue lambda and three fixed complex shifts, nu = Re-part eigenvalue computed from lambda, the code's two candidate roots and its probe at a real "
                 "shift return lambda itself (never the mirror root sigma_r + sigma_i^2/(lambda - sigma_r)) with imaginary part exactly 0, the shift installed at construction is in force again afterwards, and the "
                 "probe is not made at Re sigma or Re sigma +- Im sigma - real numbers the property explicitly allows to be eigenvalues of A (a probe there solves with a singular matrix); for any other probe value "
                 "the definedness of the probe solve is the genericity assumption the library itself makes, so another seed or formula for the probe raises no alarm. "
                 "Concrete replay drivers of the two fixed defects re-run every time."),
    functions=GLUE_FUNCS_GEN,
    stubs=GLUE_STUBS + ["complex-shift cases: the user's operator := exact shift-solve on an eigenvector, (A - r I)^-1 v = v/(lambda - r), defined iff r is no eigenvalue of A (lambda and one arbitrary further eigenvalue are symbols); "
                        "std::sqrt(complex) := real radical for a real argument; RandomScalar::run := real generator state transition, draw mapped to an odd multiple of 1/16 in (-0.5, 0.5)"],
    assumptions=GLUE_ASSUME + ["complex-shift cases: the probe shift actually used is not an eigenvalue of A unless it is Re sigma or Re sigma +- Im sigma (then it is reported); nu != 0"],
    bounds={"quick": {"(n,nev,ncv)": "(5,1,3) maxit 0,1; (5,2,4) maxit 0", "rules": "6 selection rules", "histories": "ic, icc, icic, icC", "complex shift": "sigma in {0.5+0.75i, i, -2+0.5i}, real lambda symbolic, n=3"},
            "thorough": {"(n,nev,ncv)": "(5,1,3),(5,2,4) maxit<=2; (6,2,5),(6,3,5),(7,1,6) maxit<=1"}},
    outside=[ROUNDING, "GenEigsComplexShiftSolver's root selection for COMPLEX eigenvalues (harness cases exist; the complex square root contract leaves them undecided within the solver caps) and its numerical conditioning", "unit norm of x relies on K2's unit-norm contract (C09)",
             "convergence of the iteration itself"],
    policy=dict(events="ignore", allow_cut=False),
    technique="symbolic execution of the real general-solver glue over kernel contracts; z3/cvc5 decide per path convergence-on-current-factorization, pairing and shift obligations",
    level_text="bounded symbolic verification of the general solver's sequencing, pairing and shift logic over all Ritz data allowed by the kernel contracts, sizes up to (7,1,6), maxit<=2; complex-shift back-transformation and root selection for real eigenvalues",
    level_note="assume-guarantee over K2,K3,K4; exact arithmetic; no-foreign-tie assumption on the selection key; small sizes",
)


def c05_jobs(tier):
    if tier == "quick":
        return [dict(harness="sym_glue", pattern=r"^sym/n4k2m3/(LargestMagn|BothEnds)/(LargestMagn|SmallestAlge|SmallestMagn)/maxit0/ic$|^sym/n4k2m3/LargestMagn/SmallestAlge/maxit1/ic$|^sym/n4k2m3/BothEnds/SmallestMagn/maxit1/ic$|^sym/n3k1m2/.*/maxit[012]/ic$|^hist/n3k1m2/.*/maxit1/icic$|^hist2/n3k1m2/.*-maxit0$",
                     label="symmetric: all sorting rules, accessors, counters; second compute() with maxit 0 / another rule", deadline=200),
                dict(harness="gen_glue", pattern=r"^gen/n5k1m3/(LargestReal|LargestMagn)/(SmallestReal|SmallestImag)/maxit[01]/ic$|^genshift/n5k1m3/LargestReal/SmallestReal/maxit[01]/|^genhist/n5k1m3/.*/maxit0/|^gen/n5k2m4/LargestReal/SmallestReal/maxit0/|^genshift/n5k2m4/LargestReal/SmallestReal/maxit0/|^genhist2/.*/maxit0/icC(/shift)?/then-.*-maxit0$|^genfull2/n3k1m3/.*-maxit0$",
                     label="general: sorting rules, accessors, counters; second compute() with maxit 0 / another rule", deadline=200)]
    return c05_jobs("quick") + [dict(harness="sym_glue", pattern=r"^sym/n5k2m4/LargestMagn/(LargestMagn|SmallestAlge|SmallestMagn)/maxit[01]/ic$|^symshift/n5k2m4/.*/maxit[01]/|^sym/n4k2m3/(LargestMagn|BothEnds)/(LargestMagn|SmallestAlge|SmallestMagn)/maxit1/ic$|^hist2/",
                                     label="symmetric (5,2,4), all (4,2,3) sorting rules at maxit 1, all icC histories [budgeted]", deadline=700, budget=True),
                                dict(harness="gen_glue", pattern=r"^gen/n5k2m4/(LargestReal/SmallestReal|LargestMagn/SmallestImag)/maxit1/ic$|^genshift/n5k2m4/.*/maxit1/|^genhist2/", label="general (5,2,4) maxit 1, all icC histories [budgeted]", deadline=900, budget=True)]


SPECS["C05"] = dict(
    run=std_run, jobs=c05_jobs,
    explanation=("Accessor / count / ordering / status consistency decided on the real glue code over kernel contracts (same engine as C01/C02), for every path of the restart loop: "
                 "compute()'s return value == eigenvalues().size() == eigenvectors().cols() <= nev; info()==Successful iff that number is nev, else NotConverging; before compute() info()==NotComputed and "
                 "the accessors are empty (fresh object and after init()); the i-th value and i-th vector column carry the same Ritz index; eigenvectors(m) for m=0..nev+1 is the first min(m,count) "
                 "columns; the values are ordered by the sorting rule (solver query on symbolic values, on the back-transformed values in shift mode); at most maxit restarts; num_operations() equals the "
                 "applications the kernels perform since init() and stays within 2+2*ncv*(maxit+1); the glue never applies the user's operator itself. That the real kernels advance the counter by "
                 "exactly their own applications (including breakdown restarts) is decided on the real Arnoldi/Lanczos code under C07."),
    functions=GLUE_FUNCS_SYM + GLUE_FUNCS_GEN, stubs=GLUE_STUBS, assumptions=GLUE_ASSUME,
    bounds={"quick": {"symmetric": "(4,2,3) maxit 0,1 with 3 sorting rules; (3,1,2) maxit 0..2 all rules", "general": "(5,1,3) maxit 0,1"},
            "thorough": {"symmetric": "(3,1,2),(4,2,3),(5,2,4) maxit<=2", "general": "(5,1,3),(5,2,4) maxit<=1"}},
    outside=[ROUNDING, "the complex-shift solver's 2*nev probe solves (outside the counted iteration by the property's own wording)", "num_iterations()"],
    policy=dict(events="ignore", allow_cut=False),
    technique="symbolic execution of the real solver glue over kernel contracts; path-wise structural checks plus z3 ordering obligations on symbolic eigenvalues",
    level_text="bounded symbolic verification of accessor/count/order/status consistency over all Ritz data and convergence patterns, sizes up to (5,2,4), maxit<=2",
    level_note="assume-guarantee over kernel contracts; the counter increments inside the kernels are covered by C07",
)


def c04_jobs(tier):
    q = [dict(harness="sym_glue", pattern=r"^(full|fullshift)/n[34]|^sym/n5k2m4/[A-Za-z]+/LargestAlge/maxit0/ic$|^sym/n4k2m3/BothEnds/LargestAlge/maxit1/ic$|^full2/n3k1m3/",
              label="symmetric: full-space exactness, rule = set; a second compute() with another rule returns the new rule's set", deadline=200),
         dict(harness="gen_glue", pattern=r"^(genfull|genfullshift)/n[34]|^gen/n5k2m4/[A-Za-z]+/LargestMagn/maxit0/ic$|^genfull2/n3k1m3/", label="general: full-space exactness, rule = set; second compute() with another rule", deadline=200),
         dict(harness="c08_qr", pattern=r"^tridiag-exact-shift/n2", label="exact-shift deflation", deadline=100)]
    if tier == "quick":
        return q
    return q + [dict(harness="sym_glue", pattern=r"^sym/n(5k3m4|6k2m5)/(LargestMagn|BothEnds|SmallestAlge)/LargestAlge/maxit[01]/ic$", label="symmetric: larger sizes [budgeted]", deadline=700, budget=True),
                dict(harness="gen_glue", pattern=r"^gen/n(6k2m5|6k3m5)/(LargestMagn|LargestReal)/LargestMagn/maxit[01]/ic$", label="general: larger sizes [budgeted]", deadline=700, budget=True),
                dict(harness="c08_qr", pattern=r"^tridiag-exact-shift/n3", label="exact-shift deflation n=3 [budgeted]", deadline=600, budget=True),
                dict(harness="sym_glue", pattern=r"^full2/|^(full|fullshift)/n5|^sym/n4k2m3/BothEnds/SmallestMagn/maxit1/ic$", label="symmetric: second compute() with another rule, all full2 cases; full-space (5,2,5) [budgeted]", deadline=600, budget=True),
                dict(harness="gen_glue", pattern=r"^genfull2/|^(genfull|genfullshift)/n5", label="general: second compute() with another rule, all genfull2 cases; full-space (5,2,5) [budgeted]", deadline=600, budget=True)]


SPECS["C04"] = dict(
    run=std_run, jobs=c04_jobs,
    explanation=("Mechanism-level decision of 'the converged set is what the rule names' (the convergence theory itself is outside any bounded encoding): on the real glue over kernel contracts, "
                 "(1) full-space exactness: with ncv = n the factorization is exact (beta = 0), compute() must report Successful and the returned set must be the rule's top-nev of the ncv eigenvalues "
                 "the eigen-kernel hands back - proven by z3 against a reference top-k written independently (|x|, x, Re, |Im|; BothEnds = ceil(k/2) largest + floor(k/2) smallest by counting), for every "
                 "rule each solver supports; (2) in shift mode the rule acts on nu and the result is reported as sigma + 1/nu; (3) whenever a run ends Successful the returned set is the rule's top-nev of "
                 "the Ritz values of the final decomposition; (4) wanted values are never purged: every restart keeps nev <= k < ncv and applies exactly the ncv-k stored values at positions >= k as "
                 "shifts (pairs as double shifts); (5) an exact-eigenvalue shift deflates the last row of T in the real TridiagQR."),
    functions=GLUE_FUNCS_SYM + GLUE_FUNCS_GEN + ["TridiagQR::compute, matrix_QtHQ (exact shift)"], stubs=GLUE_STUBS, assumptions=GLUE_ASSUME,
    bounds={"quick": {"full-space": "(3,1,3),(3,2,3),(4,2,4),(4,3,4) symmetric; (3,1,3),(4,1,4),(4,2,4) general ((5,2,5) thorough); all supported rules; plain + real shift; second compute() with another rule at (3,1,3)",
                      "selection": "(5,2,4) maxit 0, (4,2,3) BothEnds maxit 1", "exact shift": "n=2"},
            "thorough": {"selection": "up to (6,3,5) maxit<=1", "exact shift": "n<=3"}},
    outside=["that the iteration CONVERGES to those values for a spectrum with gaps (convergence theory)", "generalized modes (decided at operator level under C03), Davidson/LOBPCG/SVD selection", ROUNDING],
    policy=dict(events="ignore", allow_cut=False),
    technique="symbolic execution of the real selection / restart glue over kernel contracts; z3 proves set equality with an independent top-k reference for every rule",
    level_text="mechanism-level bounded symbolic verification: rule-to-set correspondence on exact (full-space) factorizations and on every Successful path; shifts = unwanted tail",
    level_note="convergence theory outside; assume-guarantee over kernel contracts; sizes up to (6,3,5)",
)


def c13_jobs(tier):
    quick = tier == "quick"
    q = [dict(harness="sym_glue", pattern=r"^nevadj/", label="restart-size function (symmetric), all (nev,ncv) with ncv<=8, ncv-nev<=4; restart() itself for ncv<=%d" % (4 if quick else 5), deadline=(200 if quick else 900), sanitize=True,
              env=({"VERIF_NEVADJ_RESTART_MAX": "4"} if quick else None)),
         dict(harness="gen_glue", pattern=(r"^gennevadj/k\dm[3-4]/" if quick else r"^gennevadj/"), label="restart-size function (general), ncv<=4 (thorough 8), ncv-nev<=4", deadline=(200 if quick else 900), sanitize=True),
         dict(harness="sym_glue", pattern=(r"^sym/n3k1m2/LargestMagn/LargestAlge/maxit[12]/ic$|^sym/n4k2m3/LargestMagn/LargestAlge/maxit0/ic$|^sym/n6k2m5/LargestMagn/LargestAlge/maxit0/ic$" if quick else
                                           r"^sym/n(6k1m3|4k2m3)/LargestMagn/LargestAlge/maxit1/ic$|^sym/n6k2m5/LargestMagn/LargestAlge/maxit0/ic$|^sym/n3k1m2/LargestMagn/LargestAlge/maxit[12]/ic$"),
              label="whole runs under ASan/UBSan (symmetric)", deadline=(200 if quick else 600), sanitize=True),
         dict(harness="gen_glue", pattern=(r"^gen/n5k1m3/LargestImag/LargestMagn/maxit[01]/ic$|^gen/n6k2m5/LargestMagn/LargestMagn/maxit0/ic$" if not quick else
                                           r"^gen/n5k1m3/(LargestImag|LargestMagn)/LargestMagn/maxit0/ic$|^gen/n6k2m5/LargestMagn/LargestMagn/maxit0/ic$"),
              label="whole runs under ASan/UBSan (general)", deadline=(200 if quick else 600), sanitize=True)]
    if quick:
        q.pop()  # general whole runs under sanitizers: thorough tier (the quick tier keeps the symmetric ones and the 414 sanitized instance runs on the real kernels)
    q.append(dict(harness="c07_krylov", pattern=r"^lanczos-step/n3/k2/zero$|^arnoldi-step/n3/k[12]/regular$|^(arnoldi|lanczos)-init/n2/v[01]$", label="definedness (division / sqrt) obligations inside the real Krylov kernels (shared with C07)", deadline=200))
    q.append(dict(harness="c13_audit", pattern=r"^audit/", label="real solvers + real kernels on 11 degenerate concrete operators with an auditing operator (buffers, work bound, finiteness) under ASan/UBSan",
                  deadline=200, sanitize=True))
    if quick:
        return q
    return q + [dict(harness="sym_glue", pattern=r"^sym/n(6k2m5|7k1m6|5k3m4)/LargestMagn/LargestAlge/maxit1/ic$", label="whole runs, larger sizes (symmetric) [budgeted]", deadline=700, sanitize=True, budget=True),
                dict(harness="gen_glue", pattern=r"^gen/n(6k2m5|6k3m5|7k1m6|7k2m6)/LargestMagn/LargestMagn/maxit1/ic$", label="whole runs, larger sizes (general) [budgeted]", deadline=700, sanitize=True, budget=True)]


SPECS["C13"] = dict(
    run=std_run, jobs=c13_jobs, post=reg_post([("c13_nullspace_start.cpp", ())]),
    explanation=("Memory safety / work bound / index discipline of compute(), decided symbolically on the real restart logic: (1) restart-size function by state injection - the real nev_adjusted() "
                 "and restart() are run from an ARBITRARY Ritz state (symbolic values and estimates; for the general solver every real/complex pattern with adjacent conjugates) for every legal (nev,ncv) "
                 "with ncv<=8 and every nconv in [0,nev): 1 <= k < ncv, k >= nev, no conjugate pair split, compress/refactorize called inside their contracts, the factorization is valid at ncv afterwards; "
                 "(2) whole runs of compute() over kernel contracts, harness built with Eigen's index assertions turned into exceptions and with AddressSanitizer+UBSan: any assertion, sanitizer report or "
                 "foreign exception on an explored path is a violation; operator applications <= 2+2*ncv*(maxit+1) on every path; (3) exact-arithmetic NaN/Inf sources (a divisor or radicand that can be "
                 "0/negative) inside the real kernels are obligations of the kernel checks C07-C10, where they count as violations; the symbolic Krylov steps run with an operator that audits its "
                 "arguments (valid, distinct, non-overlapping length-n buffers) on every explored path incl. the breakdown restart; (4) instance runs (enumeration, no solver verdict): the real solvers with "
                 "the real kernels on 11 degenerate concrete operators (zero, identity, nilpotent, skew, permutation, rank-1, block diagonal, exact ties, ...) x 3 start vectors x ncv in {nev+1, nev+2, n} x maxit in "
                 "{0,1,30} with the auditing operator under ASan/UBSan: buffers, work bound, finite results, info() in {Successful, NotConverging} or a documented exception."),
    functions=GLUE_FUNCS_SYM + GLUE_FUNCS_GEN, stubs=GLUE_STUBS, assumptions=GLUE_ASSUME,
    bounds={"quick": {"restart-size": "symmetric: all legal (nev,ncv), ncv<=8, ncv-nev<=4 (restart itself for ncv<=4); general: ncv<=4", "whole runs": "symmetric (3,1,2) maxit 1,2; (4,2,3),(6,2,5) maxit 0 (general whole runs: thorough)",
                      "instance runs": "11 operators x 3 start vectors x ncv in {3,4,6} x maxit in {0,1,30}"},
            "thorough": {"restart-size": "restart itself for ncv<=5; general ncv<=8", "whole runs": "+ (4,2,3),(6,1,3),(5,1,3) maxit 1; (5,3,4),(6,2,5),(6,3,5),(7,1,6),(7,2,6) maxit 1 [budgeted]"}},
    outside=["NaN/Inf that arise from rounding or overflow", "sizes beyond the tables", "Ritz states with exact ties separating conjugate partners (see assumptions): state-level counterexamples exist there "
             "(index ncv read in GenEigsBase::restart), not reproduced through the public API"],
    policy=dict(events="violation", allow_cut=False),
    technique="symbolic execution of the real restart-size / restart logic from arbitrary Ritz states and of whole runs over kernel contracts, under Eigen assertions + ASan/UBSan; z3 decides path feasibility",
    level_text="bounded symbolic verification of index safety and the work bound of the restart logic for all Ritz states at ncv<=8; whole-run paths under sanitizers at small sizes; operator-argument audit on the symbolic Krylov steps and on 414 degenerate instance runs of the real kernels (enumeration)",
    level_note="kernels abstracted (their own memory safety is exercised by the real-kernel checks C07-C10 built with Eigen assertions); tie-separated conjugate pairs assumed away",
)


# ------------------------------------------------------------------------------------------------
# C07: Krylov factorization invariant on the real Arnoldi / Lanczos code
def c07_jobs(tier):
    if tier == "quick":
        return [dict(harness="c07_krylov", pattern=r"-step/n[34]/k\d/(regular|small)$|^lanczos-step/n3/k2/zero$|-init/n2/|^(arnoldi|lanczos)-init/n3/v0$|^init-zero-vector|^arnoldi-compress/n3/|^lanczos-compress/n3/m2|^lanczos-bstep(-breakdown)?/|-2step-linear/",
                     label="one inductive step / init / compress / B-inner product, n<=4; breakdown + regular step in one call", deadline=280)]
    return c07_jobs("quick") + [dict(harness="c07_krylov", pattern=r"-step/n[34]/k\d/(regular|small)$|^lanczos-step/n3/k2/zero$|-init/|^init-zero-vector|^arnoldi-compress/|^lanczos-compress/n[34]/m2|^lanczos-bstep(-breakdown)?/|-2step-linear/",
                 label="single-step cases n<=4, init with tolerance obligations [budgeted]", deadline=1200, env={"VERIF_C07_TOL": "1"}, cap=(20, 120), budget=True)]


SPECS["C07"] = dict(
    run=std_run, jobs=c07_jobs,
    explanation=("The REAL Arnoldi / Lanczos code (init, factorize_from incl. the 0.717 test and re-orthogonalisation loop, Lanczos local-restart test, expand_basis on breakdown, compress_H + compress_V, "
                 "ArnoldiOp inner products with identity and with an SPD B) is executed symbolically for ONE inductive step from an ARBITRARY valid state instead of whole runs: the pre-state is "
                 "generated constraint-free from a fixed rational orthogonal frame Qc (A = Qc Ahat Qc', Ahat symbolic in the Krylov zero pattern, V_k = Qc[:, :k], f = beta Qc[:,k]) so every valid "
                 "factorization of that size is covered up to the choice of frame; beta is a rational chosen per threshold branch (3/4 regular, 1e-9 < sqrt(eps), exactly 0 = breakdown). After the "
                 "step z3 proves entry-wise A V = V H + f e_k', V'BV = I, V'Bf = 0, H Hessenberg / symmetric tridiagonal, m_k = advertised dimension, beta^2 = f'Bf, and that the operation counter "
                 "advanced by exactly the number of times the operator was really applied (also across breakdown restarts). A breakdown followed by a regular step inside ONE "
                 "factorize_from call (the per-step restart decision must not leak into the next step) is run on A = [[A11, C],[0, B0 + t v2 w']] with A11, C, t symbolic. Implicit restart: real compress_H/compress_V after a real single-shift QR "
                 "(rotation contract K5) from k = m. init(): symbolic A, numeric start vectors (the library's default vector and two others); zero / sub-threshold start vectors are rejected with "
                 "invalid_argument before the operator is applied. Division by a possibly-zero norm is a definedness obligation."),
    functions=["Arnoldi<S,Op>::init, factorize_from, expand_basis, compress_H, compress_V", "Lanczos<S,Op>::factorize_from, compress_H", "ArnoldiOp<S,Op,IdentityBOp> and ArnoldiOp<S,Op,BOp>::inner_product, "
               "adjoint_product, norm, perform_op", "UpperHessenbergQR/TridiagQR::compute, apply_YQ, matrix_QtHQ (with rotation contract)", "SimpleRandom<S> seed handling + next_long_rand (draw mapped to a small rational)"],
    stubs=["compute_rotation := contract K5 (checked on the real code under C08)", "RandomScalar<S>::run: real generator state transition, draw mapped to a dyadic rational in [-0.5,0.5]"],
    assumptions=["exact real arithmetic", "Lanczos compress: input sub-diagonals not negligible (TridiagQR's eps-deflation paths hold only to eps level by design and are recorded, not checked)"],
    bounds={"quick": {"n": "3,4", "steps": "k -> k+1 for every k<n, regular and small beta; breakdown (beta=0) n=3", "init": "n=2 (3 vectors), n=3 default vector", "compress": "n=3, m=2,3", "B-inner product": "n=3,4",
                      "two-step": "breakdown at step k=2 followed by a regular step inside one factorize_from call, n=4, A = [[A11, C],[0, B0 + t v2 w']] with A11, C, t symbolic (9 symbols; "
                      "every residual norm rational by construction)", "skipped": "forced-zero tolerance obligations of init(); two-step breakdown with generic symbolic blocks (nested radicals)"},
            "thorough": {"n": "3,4", "steps": "all incl. breakdown", "init": "n=2,3 all vectors incl. tolerance obligations", "compress": "n=3,4", "two-step breakdown": "n=4"}},
    outside=[ROUNDING + " (so loss of orthogonality, the adequacy of eps-level thresholds and ||V'V-I||~1 on rank-deficient inputs are not visible)", "double-shift compress (C08 covers DoubleShiftQR itself)",
             "sequences of more than one step are covered by induction only under exact arithmetic", "complex Hermitian scalars"],
    policy=dict(events="violation", allow_cut=False),
    technique="symbolic execution of the real Arnoldi/Lanczos templates for one inductive step from an arbitrary valid state (constraint-free parametrisation); z3 proves the Krylov invariant entry-wise",
    level_text="bounded inductive-step verification in exact real arithmetic: every valid factorization state of size n<=4 (fixed rational frame), every branch of one step / init / single-shift compress",
    level_note="exact arithmetic; n<=4; one fixed orthogonal frame per n; trusted: g++, Eigen, z3/cvc5, symx",
)


# ------------------------------------------------------------------------------------------------
# C11: matrix-operation wrappers
def c11_jobs(tier):
    if tier == "quick":
        return [dict(harness="c11_ops", pattern=r"^(?!SparseGenComplexShiftSolve).*/n2$|^nonsquare/", label="all wrappers n=2 (matrix passed as plain object, block, strided Map, expression), non-square shapes", deadline=280)]
    return [dict(harness="c11_ops", pattern=r"^(?!SparseGenComplexShiftSolve).*/n2$|^nonsquare/", label="all wrappers n=2", deadline=900),
            dict(harness="c11_ops", pattern=r"^(Dense|Sparse)(Gen|Sym|Herm)MatProd.*/n3$|^SymShiftInvert/.*/n3$|^(Dense|Sparse)Cholesky.*/n3$|^SparseRegularInverse/.*/n3$|^SparseSymShiftSolve/.*/n3$|^DenseGenRealShiftSolve/.*/n3$",
                 label="products, SymShiftInvert, Cholesky, shift solves n=3 [budgeted]", deadline=1200, cap=(20, 120), budget=True)]


SPECS["C11"] = dict(
    run=std_run, jobs=c11_jobs, post=reg_post([("c11_reginv_upper.cpp", ())]),
    explanation=("Every built-in wrapper is instantiated with the symbolic scalar and run on symbolic matrices, vectors and shifts; for wrappers with a triangle option the designated triangle holds the "
                 "symmetric matrix and every entry of the other triangle is an independent junk symbol. z3 proves per path (pivoting decisions of PartialPivLU / SparseLU / BKLDLT / LLT / SimplicialLLT fork "
                 "like any branch): y = A x and op*X (Gen), y = sym(A_tri) x (Sym/Herm, dense/sparse, Lower/Upper x Col/RowMajor x int/long index), (A - sigma I) y = x (real shift solves), "
                 "(A - sigma I) z = x and y = Re z (complex shift, dense), L^-T L^-1 = B^-1 and <L^-1 x, L^-1 y> = x'B^-1 y with the fill-reducing permutation (Cholesky wrappers), y = B x "
                 "(SparseRegularInverse::perform_op), (A - sigma B) y = x for the dense/sparse x dense/sparse x Lower/Upper x Lower/Upper pairings of SymShiftInvert plus a sample of storage-order / index-type "
                 "combinations; the matrix argument passed as an interior block of a larger matrix, as a strided Map into a larger buffer and as an expression (junk around it must not be read); "
                 "and that NO output term mentions a junk symbol (the other triangle is never read). The CG-based SparseRegularInverse::solve is decided by taint: designated triangle and x "
                 "numeric, other triangle junk - no branch and no output may depend on junk, and the concrete result solves the system of the designated triangle. Non-square shapes up to 4x4 raise "
                 "std::invalid_argument in all ten wrappers that document it."),
    functions=["perform_op / operator* / operator() / set_shift / solve / lower_triangular_solve / upper_triangular_solve of DenseGenMatProd, DenseSymMatProd, DenseHermMatProd, SparseGenMatProd, SparseSymMatProd, "
               "SparseHermMatProd, SparseSymShiftSolve, DenseGenRealShiftSolve, SparseGenRealShiftSolve, DenseGenComplexShiftSolve, DenseCholesky, SparseCholesky, SparseRegularInverse, SymShiftInvert "
               "(+ SymShiftInvertHelper, BKLDLT, Eigen's LLT / SimplicialLLT / PartialPivLU / SparseLU / ConjugateGradient instantiated with the symbolic scalar)", "DenseSymShiftSolve: see C10"],
    bounds={"quick": {"n": 2, "template options": "70 instantiations incl. all 16 dense/sparse x Lower/Upper pairings of SymShiftInvert + 6 storage-order/index combinations", "non-square": "all r x c, r != c, up to 4x4"},
            "thorough": {"n": "2 and 3"}},
    outside=[ROUNDING + " (backward stability)", "SparseGenComplexShiftSolve: a few residual identities stay undecided within the solver caps at n=2 (harness cases exist, not registered)",
             "the remaining storage-order / index-type combinations of SymShiftInvert (22 of 64 instantiated)", "blocks / maps / expressions as arguments of the sparse wrappers (dense products and dense shift solves are covered)", "singular shifted matrices (outside the wrappers' domain)"],
    assumptions=["exact real arithmetic", "shift solves: sigma is not an eigenvalue (a zero pivot is assumed away; SparseLU failures surface as invalid_argument)"],
    policy=dict(events="violation", allow_cut=lambda case: "solve-taint" in case,
                expected_outcomes=r"^(completed|infeasible)$|^cut:tainted branch"),
    technique="symbolic execution of the real wrapper templates (and the Eigen decompositions below them) on symbolic matrices with junk symbols in the unused triangle; z3 proves each operator identity entry-wise",
    level_text="bounded symbolic verification in exact arithmetic: every matrix / vector / shift of size n=2 (3 thorough) for 70 wrapper instantiations; triangle non-interference by symbol dependence",
    level_note="n<=3; exact arithmetic; a sample of the template cross product; trusted: g++, Eigen, z3/cvc5, symx",
)


def c03_jobs(tier):
    if tier == "quick":
        return [dict(harness="c03_geigs", pattern=r"/n2$|^backtransform/.*/nev[12]/|^lemma", label="operators n=2, back-transformations nev<=2", deadline=250, sanitize=True),
                dict(harness="c07_krylov", pattern=r"^lanczos-bstep/n3|^lanczos-bstep-breakdown/", label="B-inner product Lanczos step and breakdown restart (shared with C07)", deadline=100),
                dict(harness="c11_ops", pattern=r"^SymShiftInvert/(dd|ss)/(LU|UL)/n2$|^(Dense|Sparse)Cholesky/upper/col/n2$|^SparseRegularInverse/.*/n2$", label="wrappers in non-default triangle options (shared with C11)", deadline=200)]
    return c03_jobs("quick") + [dict(harness="c03_geigs", pattern=r"/n3$|^backtransform/.*/nev3/", label="operators n=3, back-transformations nev=3 [budgeted]", deadline=1200, sanitize=True, budget=True),
            dict(harness="c07_krylov", pattern=r"^lanczos-bstep/n4", label="B-inner product Lanczos steps n=4 [budgeted]", deadline=600, budget=True)]


SPECS["C03"] = dict(
    run=std_run, jobs=c03_jobs,
    explanation=("Generalized symmetric solvers, decided piecewise on the real code: (1) the five internal operators (SymGEigsCholeskyOp, RegInvOp, ShiftInvertOp, BucklingOp, CayleyOp) are run on the real dense/"
                 "sparse wrappers with symbolic pencils and z3 proves L y = A L^-T x with L L' = B, y = B^-1(A x), (A - sigma B) y = B x, (K - sigma K_G) y = K x, (A - sigma B) y = (A + sigma B) x; "
                 "(2) the B-inner product of ArnoldiOp (x'By, sqrt(x'Bx), X'By) inside a real Lanczos step keeps A V = V H + f e', V'BV = I, V'Bf = 0 (C07 harness); (3) the real sort_ritzpair of the three "
                 "shift modes, run from an arbitrary Ritz state, returns 1/nu + sigma, sigma nu/(nu-1), sigma (nu+1)/(nu-1), co-permutes value / vector column / flag and orders by the sorting rule on lambda; "
                 "the inverse maps compose to the identity; (4) sigma == 0 is rejected with invalid_argument in buckling and Cayley mode and only there (symbolic sigma: the test forks); (5) Cholesky-mode "
                 "eigenvectors() returns X = L^-T (V y) with X'BX = y'V'Vy; (6) the mode operator passed as an rvalue lives in the solver's own container (run under ASan). Together with C01 (generation "
                 "consistency of HermEigsBase, shared by all these solvers) and C07 this yields A x = lambda B x and X'BX = I in exact arithmetic."),
    functions=["SymGEigsCholeskyOp/RegInvOp/ShiftInvertOp/BucklingOp/CayleyOp::perform_op, set_shift", "SymGEigsShiftSolver<.., ShiftInvert|Buckling|Cayley>: constructor, set_shift_and_move, sort_ritzpair",
               "SymGEigsSolver<.., Cholesky>: constructor, eigenvectors(nvec)", "HermEigsBase rvalue constructor, create_op_container", "ArnoldiOp<S,Op,BOp>::inner_product, norm, adjoint_product", "SymShiftInvert, DenseCholesky, "
               "SparseCholesky, SparseRegularInverse, DenseSymMatProd, SparseSymMatProd"],
    bounds={"quick": {"pencil size": 2, "back-transformations": "nev = 1,2; 4 sorting rules; 3 modes", "B-inner product step": "n=3"}, "thorough": {"pencil size": "2,3", "back-transformations": "nev<=3", "B-inner product step": "n=3,4"}},
    outside=[ROUNDING + " (conditioning of B)", "whole generalized solver runs on symbolic pencils (composition argument instead)", "SparseRegularInverse::solve identity (CG): only triangle non-interference is decided (C11)"],
    assumptions=["exact real arithmetic", "nu != 0 (shift-invert) / nu != 1 (buckling, Cayley): sigma is not a generalized eigenvalue"],
    policy=dict(events="violation", allow_cut=lambda case: "solve-taint" in case, expected_outcomes=r"^(completed|infeasible)$|^cut:tainted branch"),
    technique="symbolic execution of the real generalized-mode operators, back-transformations and B-inner-product Lanczos step on symbolic pencils; z3 proves each identity",
    level_text="bounded symbolic verification in exact arithmetic of every building block of the generalized solvers at pencil size 2 (3 thorough); composition with C01/C07 argued, not executed",
    level_note="compositional; n<=3; exact arithmetic",
)


# ------------------------------------------------------------------------------------------------
# C09: small dense eigen-decompositions
def c09_jobs(tier):
    d = 280 if tier == "quick" else 900
    jobs = [dict(harness="c09_eig", pattern=r"^schur/n2/general|^zero-matrix/", label="Schur 2x2, zero matrices", deadline=d),
            dict(harness="c09_eig", pattern=r"^schur/n2/defective", label="Schur 2x2 with zero discriminant", deadline=d),
            dict(harness="c09_eig", pattern=r"^trideig/n2", label="tridiagonal 2x2", deadline=d),
            dict(harness="c09_step", pattern=r"^givens/|^trideig-step/n[23]/|^trideig-step/n4/s(1e3|0e2|1e2)$", label="one real tridiagonal QR step from an arbitrary state: invariant preserved (n<=4, active blocks up to 3x3)", deadline=d),
            dict(harness="c09_step", flags=("-DC09_STUB_STEP",), pattern=r".", label="driver loops of TridiagEigen / UpperHessenbergSchur over a stalled step: iteration cap -> exception, no results", deadline=d)]
    if tier != "quick":
        jobs.append(dict(harness="c09_step", pattern=r"^trideig-step/n4/s0e3$", label="one real tridiagonal QR step, full 4x4 block [budgeted]", deadline=1200, cap=(20, 200), budget=True))
        jobs.append(dict(harness="c09_step", pattern=r"^francis-step/", label="one real Francis double-shift step of UpperHessenbergSchur on an unreduced 3x3 window [budgeted: the degenerate 'nothing to rotate' branches stay undecided]",
                         deadline=600, cap=(10, 60), budget=True))
    return jobs


SPECS["C09"] = dict(
    run=std_run, jobs=c09_jobs, post=reg_post([("c13_nullspace_start.cpp", ())]),
    explanation=("Only the part of this property that a bounded exact-arithmetic encoding can reach is claimed: the real UpperHessenbergSchur (compute, find_small_subdiag, split_off_two_rows with Eigen's "
                 "JacobiRotation) on every 2x2 matrix whose sub-diagonal is clearly not negligible - z3 proves U'U = I, U T U' = H entry-wise, and that a non-zero T(1,0) is left only for a complex pair "
                 "(negative discriminant), including the zero-discriminant (repeated / defective eigenvalue) case that the eigenvalue extraction and the restart logic of the general solver rely on; the real "
                 "TridiagEigen on every unreduced symmetric 2x2 matrix (one implicit QR step deflates exactly): Z'Z = I, T Z = Z diag(d), only the lower part is read; the zero-matrix exits of TridiagEigen, "
                 "UpperHessenbergEigen and UpperHessenbergSchur for n = 2..4 (eigenvalues 0, unit vectors, no NaN - the UpperHessenbergEigen exit is the repair of a defect found here). The concrete replay "
                 "driver of that defect (general solver on the zero matrix) is re-run. Iterative part (n >= 3), decided inductively instead of by whole runs: ONE real tridiagonal_qr_step (Wilkinson shift, "
                 "bulge chase, accumulation) from an ARBITRARY state - symbolic symmetric tridiagonal T, rational orthogonal accumulator Q, every active block [start,end] of size 2-3 inside n <= 4 - "
                 "preserves the invariant of the whole iteration: Q' orthogonal, Q'T'Q'^T = Q T Q^T, T' again symmetric tridiagonal (bulge chased out), entries outside the block untouched (Eigen's makeGivens "
                 "replaced by its contract, which is checked on Eigen's real code); with the invariant, termination gives T Z = Z diag(d), Z'Z = I. Driver loops: with the step replaced by a stub that makes no "
                 "progress, TridiagEigen::compute (n = 2,3) and UpperHessenbergSchur::compute (3x3 window, both exceptional shifts) give up after a bounded number of steps, throw std::runtime_error and "
                 "never report results; with a stub that deflates at once compute() returns the stub's values scaled back."),
    functions=["UpperHessenbergSchur<S>::compute, find_small_subdiag, split_off_two_rows, compute_shift, init_francis_qr_step, upper_hessenberg_l1_norm", "TridiagEigen<S>::compute, tridiagonal_qr_step",
               "UpperHessenbergEigen<S>::compute (zero-matrix exit), eigenvectors", "Eigen::JacobiRotation<S>::makeGivens (contract check)"],
    stubs=["step cases: Eigen::JacobiRotation::makeGivens := fresh (c,s) with c^2+s^2=1, s p + c q = 0 (checked on Eigen's real code, case givens/real)",
           "driver cases: tridiagonal_qr_step / perform_francis_qr_step := identity (no progress) or immediate deflation with fresh eigenvalues"],
    bounds={"quick": {"whole decompositions": "n = 2", "zero matrices": "n = 2,3,4", "tridiagonal QR step": "n = 2,3,4, active blocks of size 2 and 3", "driver / iteration cap": "TridiagEigen n = 2,3; Schur 3x3 window"},
            "thorough": {"tridiagonal QR step": "+ full 4x4 block [budgeted]", "Francis step": "3x3 window, near_0 = 0 [budgeted]"}},
    outside=["CONVERGENCE of the QR / Francis iterations for n >= 3 and their backward stability (the step invariant and the cap are decided; that the cap is not hit on ordinary input is not)",
             "the Francis double-shift step of UpperHessenbergSchur in the quick tier (thorough, budgeted: on an unreduced 3x3 window the generic paths - 6 paths, 120 obligations - discharge in seconds, the degenerate "
             "branches where a reflector / the trailing rotation has nothing to do leave feasibility questions undecided)",
             "UpperHessenbergEigen's eigenvalue extraction and back-substitution on symbolic input (harness cases exist; the nested radicals leave them undecided within the solver caps)",
             "matrices with negligible sub-diagonals or entries graded over more than 3 orders of magnitude (deflation thresholds make the result exact only to eps level)", ROUNDING],
    assumptions=["exact real arithmetic", "sub-diagonal > 1e-6*(|d0|+|d1|) + 1e-100 and all entries <= 1000*|sub-diagonal| (no threshold path)",
                 "TridiagEigen 2x2: after the first implicit QR step the sub-diagonal is exactly 0; the solver cannot always refute the 'not yet deflated' branch, those continuation paths are cut at 12 "
                 "decisions and reported as truncated (claim: no wrong result on any completed path)"],
    policy=dict(events="violation", allow_cut=lambda case: case.startswith("trideig/")),
    technique="symbolic execution of the real 2x2 Schur / tridiagonal eigen code and of one QR step from an arbitrary state on symbolic matrices; z3 proves the decomposition identities / the step invariant entry-wise",
    level_text="bounded symbolic verification: whole decompositions at n = 2 and the zero-matrix exits; for n >= 3 the inductive step of the tridiagonal QR iteration (n <= 4) and the iteration-cap / failure path of both drivers; convergence is not claimed",
    level_note="exact arithmetic; domain restricted away from deflation thresholds; Francis step of the Schur class not covered",
)


# ------------------------------------------------------------------------------------------------
# C06 / C14: mode P (poisoned history, real kernels, concrete operators)
P_INSTANCES = ["operators (n=6): diag(6..1), 1-D Laplacian, rank-1 (i+1)(j+1)/8, block diagonal, cyclic permutation, fixed integer matrix (symmetrised for the symmetric solvers)",
               "start vectors: generic (0.25+0.125*((5i) mod 7)), e0, ones", "arguments: LargestAlge / LargestMagn, maxit 30, tol 1e-10"]


def c06_jobs(tier):
    return [dict(harness="c06_poison", pattern=r"^reuse/|^shared-operator/|^operator-untouched/|^svd/", label="poisoned-history reruns, shared operator (plain and shift-and-invert), operator probes, SVD re-run", deadline=250, sanitize=(tier != "quick")),
            dict(harness="c10_bkldlt", pattern=r"^wrapper-reuse/|^bk-reuse/", label="operator object re-used: set_shift twice / second factorization of the same size (symbolic matrices, shared with C10)", deadline=200)]


SPECS["C06"] = dict(
    run=std_run, jobs=c06_jobs, post=reg_post([("c06_complex_shift_restore.cpp", ()), ("c16_svd_cache.cpp", ())]),
    explanation=("Mode P: the REAL solvers with the REAL kernels run on concrete operators (all arithmetic is native double arithmetic), and what is symbolic is the HISTORY: every member of the solver object that "
                 "an earlier init()/compute() - finished, unconverged or interrupted by an exception - could have written (Ritz values/vectors/estimates, flags, counters, info, V, H, f, beta, k) is overwritten "
                 "with fresh 'poison' symbols (three shapes: sized as after a complete run, half-written with k in the middle, never initialised), after a genuine earlier run with other arguments. Then "
                 "init(v); compute(args) runs. Decided by the engine: no branch condition may mention a poison symbol (taint: any such branch is a violation and ends the path) and no public result may be a "
                 "term over poison; the concrete results (eigenvalues, eigenvectors, num_iterations, num_operations, return value, info) must be bit-identical to those of a freshly constructed solver. One "
                 "poisoned run covers EVERY earlier history at once (inductive-step pattern). Also: two solver objects sharing one operator object interleaved at call granularity; op.perform_op(w) before and "
                 "after compute() bit-identical for the shift-and-invert solvers incl. the complex-shift solver, whose second init()+compute() must repeat the first; PartialSVDSolver: compute(); U,V; "
                 "compute(other args); U,V equal a fresh object's. Two shift-and-invert solvers built on ONE operator object (the second constructor installs the shift again): results equal a fresh "
                 "operator's and the operator still applies (A - sigma I)^-1; symbolically (C10 harness): DenseSymShiftSolve::set_shift twice and a second BKLDLT::compute of the same size on symbolic "
                 "matrices solve the LATEST system on every pivoting path of both factorizations. Replay drivers of the two defects found and fixed here re-run."),
    functions=["HermEigsBase/GenEigsBase::init, compute and everything below (real Arnoldi, Lanczos, TridiagEigen, UpperHessenbergEigen/Schur, TridiagQR, UpperHessenbergQR, DoubleShiftQR, SimpleRandom)",
               "SymEigsSolver, GenEigsSolver, SymEigsShiftSolver, GenEigsRealShiftSolver, GenEigsComplexShiftSolver::sort_ritzpair, PartialSVDSolver::compute/matrix_U/matrix_V/singular_values"],
    bounds={"quick": {"instances": P_INSTANCES, "poison shapes": 3, "cases": 107}, "thorough": {"instances": P_INSTANCES, "poison shapes": 3, "cases": 107, "sanitizers": "ASan+UBSan"}},
    outside=["the operators / arguments are the listed instances, not all matrices: the quantifier covered symbolically is the history", "Davidson, LOBPCG", "bit-identity is established within the symbolic-scalar "
             "instantiation (whose concrete arithmetic is IEEE double; Eigen's product kernels may order sums differently from the vectorised double build)", "thread interleavings (C20)"],
    assumptions=["integer / boolean members carry sentinel values (777, 555, flags all-true / one-true, k = ncv, ncv/2, 0) instead of symbols: enumeration, not a solver verdict"],
    policy=dict(events="violation", allow_cut=False),
    technique="real solver code on concrete operators with every piece of earlier state replaced by symbols; taint tracking through the symbolic scalar + bit-wise comparison with a fresh solver",
    level_text="history-universal check by state poisoning (any earlier history leaves a state covered by the poisoned pre-state) on 6 fixed operators x 3 start vectors x 3 state shapes per solver class",
    level_note="inputs are fixed instances; the history is symbolic; sentinel integers enumerated",
)


def c14_jobs(tier):
    if tier == "quick":
        return [dict(harness="c06_poison", pattern=r"^fault/.*/faults1$|^fault-B/|^fault-shift/", label="single operator fault at every application (A operator; B product / B solve of a generalized problem; shift-solve operator of the shift-and-invert solvers)", deadline=200, sanitize=True),
                dict(harness="c06_poison", pattern=r"^reuse/.*/shape[12]$", label="states an interrupted init()/compute() can leave (poisoned)", deadline=200)]
    return [dict(harness="c06_poison", pattern=r"^fault/|^fault-B/|^fault-shift/", label="single and double operator faults at every application", deadline=900, sanitize=True),
            dict(harness="c06_poison", pattern=r"^reuse/", label="poisoned states", deadline=300, sanitize=True)]


SPECS["C14"] = dict(
    run=std_run, jobs=c14_jobs,
    explanation=("A failing user operator: the operator wrapper throws a tagged exception at a nondeterministically chosen application - the choice is a fork of the symbolic explorer at EVERY application, so every "
                 "fault index from 1 to the fault-free total is explored (pairs of faults in the thorough tier) on the real solver with the real kernels. Per fault position: the exception that reaches the "
                 "caller is the operator's own object (tag checked), the harness is built with AddressSanitizer/LeakSanitizer/UBSan (any report fails the path), and after the fault is gone a new init() + "
                 "compute() on the SAME solver object returns eigenvalues, eigenvectors, iteration and operation counts bit-identical to a solver that never saw the fault. In addition (reduction to C06): every "
                 "state an interrupted init()/compute() can leave - including the never-initialised shape when the very first init() threw - is an instance of the poisoned pre-states, from which "
                 "init();compute() is shown to be independent of the poison."),
    functions=["SymEigsSolver / GenEigsSolver / SymEigsShiftSolver / GenEigsRealShiftSolver init, compute, restart with the real Lanczos / Arnoldi (exception crossing factorize_from, expand_basis, init, restart)", "ArnoldiOp::perform_op"],
    bounds={"quick": {"fault positions": "every application of the fault-free run (22-25 symmetric, 11 general)", "operators": "Laplacian, block diagonal (symmetric), integer matrix (general), n=6; SymEigsShiftSolver (Laplacian) and GenEigsRealShiftSolver (integer matrix) with sigma = 0.3"},
            "thorough": {"fault positions": "all single faults and all ordered pairs"}},
    outside=["pairs of faults in the B-operator and in the shift-solve operators", "SparseRegularInverse::solve throwing through CG (library path)", "SVD / complex-shift / generalized shift solver classes"],
    assumptions=["the operator is otherwise deterministic"],
    policy=dict(events="violation", allow_cut=False, worker_died_is_violation=True),
    technique="fault position as a symbolic choice enumerated by the path explorer on the real solver; sanitizers + bit-wise comparison with the fault-free baseline; poisoned-state independence",
    level_text="exhaustive fault-position enumeration (single, thorough: pairs) on three operator instances plus history-universal state poisoning",
    level_note="fixed operator instances; single-threaded",
)


def c16_jobs(tier):
    return [dict(harness="c16_svd", pattern=r".", label="operators A'A / AA' and accessor algebra", deadline=250),
            dict(harness="c06_poison", pattern=r"^svd/", label="second compute() describes the latest run", deadline=100)]


SPECS["C16"] = dict(
    run=std_run, jobs=c16_jobs, post=reg_post([("c16_svd_cache.cpp", ()), ("c16_svd_rank_deficient.cpp", ())]),
    explanation=("PartialSVDSolver decided piecewise: (1) SVDTallMatOp / SVDWideMatOp on fully symbolic 3x2, 2x3, 3x3, 4x2, 2x4 matrices, dense and sparse, row- and column-major: y = A'A x resp. A A' x and "
                 "dimension min(m,n); (2) the accessor algebra from an ARBITRARY converged state of the nested symmetric solver (symbolic positive eigenvalues theta, symbolic Ritz vectors and basis, "
                 "nconv = 0..ncomp): singular_values() = s with s >= 0, s^2 = theta; matrix_U(k)/matrix_V(k) have min(k, nconv) columns for every k = 0..ncomp+1; tall: V = W, U s = A v; wide/square: U = W, "
                 "V s = A'u - hence A V = U S, A'U = V S, and U'U = I, V'V = I follow from the eigen-relation W'W = I, (A'A)W = W Theta guaranteed by C01/C07/C09; (3) history: compute(); U,V; compute(other "
                 "arguments); U,V equal a fresh object's answer bit for bit (mode P instances, the stale-cache defect found here is fixed); (4) the nested solver's guarantees (ordering LargestAlge = "
                 "non-increasing singular values, genuine eigenpairs) are C01/C04/C05 on the shared HermEigsBase code; (5) exactly rank-deficient input: the same accessor code from an eigen-state whose "
                 "eigenvalues are ARBITRARY reals (zero, or slightly negative as rounding leaves them): no root of a negative number and no division by zero may be executed (definedness events are "
                 "violations), singular values are >= 0, and wherever theta > 0 the factor identities still hold - the NaN defect found by these obligations is fixed (f53bb85). Replay drivers for the "
                 "cache / leak / rank-deficiency defects re-run."),
    functions=["SVDTallMatOp::perform_op, SVDWideMatOp::perform_op", "PartialSVDSolver constructor, compute, singular_values, matrix_U, matrix_V"],
    bounds={"quick": {"operator shapes": "3x2, 2x3, 3x3, 4x2, 2x4", "accessor states": "4x3, 3x4, 3x3; ncomp=2; nconv 0..2; k 0..3; rank-deficient variants nconv 1..2"}, "thorough": "same"},
    outside=[ROUNDING + " (the tolerance clause; that the nested solver may hand back a slightly negative eigenvalue is modelled by leaving theta unconstrained in the rank-deficient cases)",
             "orthonormality of the vectors belonging to zero singular values (a zero column is returned for them)"],
    assumptions=["exact real arithmetic", "factor-identity cases: converged eigenvalues of A'A are positive; rank-deficient cases: none"],
    policy=dict(events="violation", allow_cut=False),
    technique="symbolic execution of the SVD operators and of the accessor code from an arbitrary eigen-state; z3 proves the factor identities; mode-P rerun for the history clause",
    level_text="bounded symbolic verification of operator and accessor algebra at shapes up to 4x3, for full-rank and for rank-deficient (arbitrary eigenvalue) states; the eigen-solver underneath is covered by C01/C04/C05/C07",
    level_note="compositional; exact arithmetic; factor identities need positive converged eigenvalues, finiteness / non-negativity do not",
)


# ------------------------------------------------------------------------------------------------
# C19: random generator (irsym)
import c19 as _c19

SPECS["C19"] = dict(
    run=_c19.run, engine="irsym",
    explanation=("The real next_long_rand, SimpleRandom constructor and RandomScalar<float|double|long double|complex<double>>::run are compiled to LLVM IR by clang -O1 on every run and translated to "
                 "SMT by irsym: (1) for EVERY generator state s in [1, 2^31-2] the step returns 16807*s mod (2^31-1) and stays in [1, 2^31-2] (mathematical-integer encoding with explicit mod 2^64, "
                 "decided by z3 5.1; the thorough tier also splits the range in 16 slices); (2) the constructor maps seed 0 and every seed 2i+123j (i < 2^20, j < 5) to a state in that range; (3) every "
                 "draw lies in [-0.5, 0.5] for all 2^31-2 states, in SMT FloatingPoint for float (8,24), double (11,53) and x86 long double (15,64), both components of complex draws - the state fed to "
                 "the int-to-float conversion is cut to a fresh variable constrained by (1) after checking that the stored state is syntactically next(loaded state); (4) purity: the IR of these functions "
                 "contains no call, references no global and touches memory only through the state reference; (5) the four construction sites use seed 0 or seed + 123*iter. The translator is validated on "
                 "every run by comparing its integer formulas with the natively compiled functions on random states."),
    functions=["Spectra::next_long_rand", "Spectra::SimpleRandom<double>::SimpleRandom", "Spectra::RandomScalar<float|double|long double|std::complex<double>>::run"],
    bounds={"states": "all 2^31-2", "seeds": "0 and 2i+123j, i<2^20, j<5", "data model": "LP64 (64-bit long)"},
    outside=["data models other than LP64 (32-bit long)", "statistical quality of the sequence"],
    assumptions=["clang -O1 IR is a faithful compilation of the source (nuw/nsw flags are used as facts)"],
    technique="LLVM IR of the real functions translated to SMT (Int encoding for the modular step, FloatingPoint for the draws); z3 5.1 / z3 4.8 / cvc5 verdict over the full 31-bit state space",
    level_text="complete over the whole state space (not bounded): the solver proves the step equals the Park-Miller recurrence for all 2^31-2 states and every draw is in range",
    level_note="LP64 only; trusted: clang, z3, the irsym translator (differentially validated each run)",
)


# ------------------------------------------------------------------------------------------------
# C12: argument validation
import c12 as _c12


def c12_jobs(tier):
    return [dict(harness="sym_glue", pattern=r"^rules-", label="symmetric solvers: every SortRule as selection and as sorting", deadline=200),
            dict(harness="gen_glue", pattern=r"^genrules-", label="general solvers: every SortRule as selection and as sorting", deadline=250),
            dict(harness="c07_krylov", pattern=r"^init-zero-vector", label="zero / sub-threshold start vector", deadline=60),
            dict(harness="c11_ops", pattern=r"^nonsquare/", label="non-square matrices up to 4x4 in the wrappers", deadline=120),
            dict(harness="c03_geigs", pattern=r"^backtransform/.*/nev1/LargestAlge", label="sigma == 0 in buckling / Cayley mode (symbolic sigma)", deadline=120),
            dict(harness="c18_sort", pattern=r"^argsort/real/(LargestReal|LargestImag|SmallestReal|SmallestImag)/len[0-3]$", label="argsort rejects rules undefined for real values", deadline=60)]


SPECS["C12"] = dict(
    run=std_run, jobs=c12_jobs, post=_c12.post,
    explanation=("Argument validation decided at two levels. (a) Constructor ranges on the compiler IR (irsym): extern-C wrappers around the real constructors of SymEigsSolver, SymEigsShiftSolver, HermEigsSolver, "
                 "GenEigsSolver, GenEigsRealShiftSolver, GenEigsComplexShiftSolver and the rvalue-operator constructor of HermEigsBase (the path of SymGEigsSolver / SymGEigsShiftSolver in all five modes) with a user-defined operator whose rows() is an argument are compiled with clang -O1; every path of the IR ends in "
                 "'throws std::invalid_argument' or 'constructed', and for ALL 64-bit (n >= 0, nev, ncv) the solver proves: a throwing path is only taken outside the documented range and a constructing path only "
                 "inside it (1 <= nev <= n-1, nev < ncv <= n; general solvers 1 <= nev <= n-2, nev+2 <= ncv <= n). (b) Source level (symx): compute() with each of the nine SortRule values as selection and as sorting "
                 "raises invalid_argument iff the rule is not supported by that solver family (symmetric incl. shift-invert and nev = 1; general incl. real-shift); init() rejects a zero and a sub-threshold "
                 "start vector before applying the operator; all ten wrappers reject non-square shapes up to 4x4; sigma == 0 is rejected in buckling and Cayley mode and only there (symbolic sigma); argsort "
                 "rejects rules undefined for real vectors. Leak clause (concrete companion program, enumeration - no solver verdict): for all 12 solver classes incl. the five generalized modes, Davidson and the "
                 "partial SVD, constructions with 12 (nev, ncv) pairs around every documented bound (and sigma = 0 in buckling / Cayley mode) throw invalid_argument exactly outside the range and leave no "
                 "operator-new or malloc allocation alive (global allocation counters); it contains the replay of the fixed PartialSVDSolver leak."),
    functions=["HermEigsBase / GenEigsBase lvalue constructors (via 6 solver classes, IR)", "HermEigsBase rvalue-operator constructor + create_op_container (IR; counterexamples replayed through the real SymGEigsSolver<RegularInverse>)", "HermEigsBase::sort_ritzpair, retrieve_ritzpair -> argsort; GenEigsBase::retrieve_ritzpair, sort_ritzpair", "Arnoldi::init zero check",
               "SymGEigsShiftSolver::set_shift_and_move", "wrapper constructors (shape checks)"],
    bounds={"constructor triples": "all 64-bit Index values with n >= 0", "rules": "9 x {selection, sorting} x 5 solver configurations", "non-square": "all r x c, r != c <= 4"},
    outside=["the mode-specific part of the five generalized solver classes' constructors at IR level (they build their composite operator - with heap allocations irsym does not model - and forward (nev, ncv) "
             "to the rvalue-operator constructor of HermEigsBase; that base constructor, the second copy of the range checks, IS decided at IR level with std::vector<Op> replaced by an inline-slot stub)",
             "DavidsonSymEigsSolver constructor (loop over n)", "PartialSVDSolver range (it forwards to SymEigsSolver)", "-0.0 vs 0.0 for sigma (exact reals)"],
    assumptions=["std::invalid_argument's constructor and __cxa_allocate_exception do not throw (listed as opaque calls)"],
    policy=dict(events="ignore", allow_cut=False),
    technique="IR-level symbolic execution of the real constructors (all Index values) + source-level symbolic execution of rule / vector / shape / shift validation",
    level_text="complete over all 64-bit argument triples for six solver constructors and the shared rvalue-operator base constructor of the generalized solvers; exhaustive over the nine rules; symbolic over sigma",
    level_note="mode-specific operator construction of the generalized solvers and Davidson not encoded at IR level; std::vector<Op> stubbed for the rvalue constructor; LP64",
)


# ------------------------------------------------------------------------------------------------
# C15: Davidson solver building blocks
def c15_jobs(tier):
    q = [dict(harness="c15_davidson", pattern=r"^(?!compute2/|extend-basis/n4)", label="RitzPairs / SearchSpace / correction / initial space / orthogonalisation / extend_basis / one pass of compute()", deadline=250)]
    if tier == "quick":
        return q
    return q + [dict(harness="c15_davidson", pattern=r"^compute2/n3/LargestAlge/numeric-diagonal$|^extend-basis/n4", label="two passes of the public compute() (correction, extend_basis, incremental cache, second small problem); extend_basis n=4 [budgeted]",
                     deadline=900, cap=(20, 150), budget=True)]


SPECS["C15"] = dict(
    run=std_run, jobs=c15_jobs,
    explanation=("Davidson solver decided on its real building blocks from an arbitrary valid search space (rational orthonormal frame, symbolic symmetric A, n = 3,4, space size 1-3), with the small dense "
                 "eigen-problem (Eigen::SelfAdjointEigenSolver) replaced by its contract (ascending eigenvalues, S Z = Z D): (1) the matrix handed to the dense solver is V'AV and the cached product equals A*basis "
                 "after update_operator_basis_product and after restart; (2) the residues RitzPairs forms from the cache equal A x - theta x for the USER's matrix, also after sort() (value / vector / residue / "
                 "small vector co-permuted, ordered by the rule); (3) check_convergence reports true iff every one of the first nev residual norms is below tol (symbolic residues and tol) and sets the "
                 "per-root flags accordingly - so Successful implies true residuals below tol; (4) the diagonal-preconditioned correction satisfies corr*(theta - a_ii) = residue, and its division is a "
                 "definedness obligation: theta == a_ii is possible - the known finding K-C15-1 (0/0 -> NaN, concrete replay replay/c15_davidson_nan.cpp), reported as KNOWN-FINDING; (5) the initial search space "
                 "consists of distinct unit vectors at the rule's top positions of the diagonal; (6) one pass of the real public compute(selection, maxit = 1, tol) with a symbolic tol: whenever info() is "
                 "Successful, compute() returns nev and every returned pair has ||A x - theta x|| below the CALLER's tol; (7) the orthogonalisation helpers the outer loop uses: subspace_orthogonalisation "
                 "(right block becomes (I - LL')R, left block untouched), MGS / GS with a given first column, and SearchSpace::extend_basis (append + twice-is-enough Jens-Wehner with Eigen's HouseholderQR "
                 "replaced by its contract): old basis vectors untouched, new ones orthonormal and orthogonal to the old ones; (8) thorough tier: TWO passes of the public compute() - real correction vector, real "
                 "extend_basis, product with A formed for the new basis vector only, second small eigen-problem - Successful still means true residuals of the user's matrix below the caller's tol."),
    functions=["RitzPairs<S>::compute_eigen_pairs, sort, check_convergence", "SearchSpace<S>::initialize_search_space, update_operator_basis_product, restart", "DavidsonSymEigsSolver<Op>::calculate_correction_vector, "
               "setup_initial_search_space, constructor", "argsort"],
    stubs=["K6 Eigen::SelfAdjointEigenSolver<Matrix<S>>: fresh ascending eigenvalues d and vectors Z with S Z = Z D (Eigen, not Spectra: assumed)",
           "K7 Eigen::HouseholderQR<Ref<Matrix<S>>>: fresh orthogonal Q with M = Q[:, :c] R, R upper triangular with non-zero diagonal (Eigen, not Spectra: assumed; needs M of full column rank)"],
    bounds={"n": "3, 4", "search space size": "1..3", "nev": "1, 2", "passes of compute()": "1 (quick), 2 (thorough, n=3, numeric diagonal)"},
    outside=["more than two passes of the iteration loop of JDSymEigsBase::compute_with_guess; the restart branch inside the loop (SearchSpace::restart itself is decided)", "unit norm / orthonormality of the returned vectors "
             "(needs Z'Z = I of the dense eigen-solver together with the decided orthonormality of the basis)", "user-supplied non-orthonormal initial spaces", ROUNDING],
    assumptions=["exact real arithmetic", "cache invariant established by the real update_operator_basis_product (checked)"],
    policy=dict(events="violation", allow_cut=False),
    technique="symbolic execution of the real RitzPairs / SearchSpace / correction code from an arbitrary valid search space with a contract stub for the dense eigen-solver; z3 proves residual and cache identities",
    level_text="bounded symbolic verification of the residual / convergence / ordering / orthogonalisation algebra of the Davidson solver at n<=4 and of one (thorough: two) passes of the public compute(); convergence of the outer loop is not claimed",
    level_note="building blocks + up to two passes; exact arithmetic; dense eigen-solver and HouseholderQR are contracts; one known finding (unguarded division) reported as KNOWN-FINDING",
)
