"""Per-property check definitions: which harness cases run at which tier, the policy that turns raw solver
verdicts into violations, and the text that goes into the evidence."""
import json
import os
import re

import driver as D

SPECS = {}

ROUNDING = ("rounding: floating point is modelled as exact real arithmetic with definedness obligations; n*eps accuracy clauses, "
            "overflow/underflow and loss of orthogonality are outside the claim")


def std_run(ctx, spec):
    """Generic runner: compile the harnesses of this tier's jobs, run them, collect, finish."""
    jobs = [j for j in spec["jobs"](ctx.tier) if not getattr(ctx, "only", None) or re.search(ctx.only, j.get("label", j["pattern"]))]
    bins = D.compile_all(ctx, [dict(name=j["harness"], flags=j.get("flags", ()), sanitize=j.get("sanitize", False)) for j in jobs])
    binaries = {}
    for j in jobs:
        b = bins[(j["harness"], tuple(j.get("flags", ())), bool(j.get("sanitize", False)))]
        binaries[os.path.basename(b)] = b
        D.run_symx(ctx, b, j["pattern"], workers=j.get("workers", D.NCPU), deadline=j.get("deadline"), profile=j.get("profile"),
                   cap=j.get("cap"), max_paths=j.get("max_paths"), label=j.get("label"))
    D.collect(ctx, spec.get("policy", {}))
    post = spec.get("post")
    if post:
        post(ctx, spec)
    return D.finish(ctx, spec, binaries)


def replay_file(ctx, spec, path):
    with open(path) as f:
        r = json.load(f)
    bins = D.compile_all(ctx, [dict(name=re.sub(r"(_san)?[0-9a-f]{6}$", "", r["harness"]), sanitize="_san" in r["harness"])])
    b = list(bins.values())[0]
    cand = dict(case=r["case"], name=r["obligation"], kind=r["kind"], model=r["model"], binary=os.path.basename(b), profile=r.get("profile", "double"),
                detail=r.get("detail", ""))
    ok, detail = D.replay_candidate(ctx, {os.path.basename(b): b}, cand)
    print("replay:", "REPRODUCED" if ok else "not reproduced", "-", detail)
    return 1 if ok else 0


# ------------------------------------------------------------------------------------------------
# C18: ordering primitive
def c18_jobs(tier):
    if tier == "quick":
        return [dict(harness="c18_sort", pattern=r"^argsort/real/.*/len[0-5]$|^argsort/real-prefix/", label="argsort real len<=5"),
                dict(harness="c18_sort", pattern=r"^sorteig/complex/.*/len[0-4]$", label="SortEigenvalue complex len<=4")]
    return [dict(harness="c18_sort", pattern=r"^argsort/real", label="argsort real len<=6", deadline=1500),
            dict(harness="c18_sort", pattern=r"^sorteig/complex/", label="SortEigenvalue complex len<=5", deadline=1500)]


SPECS["C18"] = dict(
    run=std_run, jobs=c18_jobs,
    explanation=("The real Spectra::argsort<Scalar> / SortEigenvalue<T,Rule> / SortingTarget templates are instantiated with a z3-backed scalar and "
                 "executed on fully symbolic value vectors; libstdc++'s std::sort runs natively and every key comparison is a fork decided by the "
                 "solver, so the explored paths partition ALL real (resp. complex) vectors of the given length, ties included (a tie lies on the "
                 "path whose conditions are its non-strict closure). On each path the solver proves: result is a permutation; consecutive keys are "
                 "ordered by a reference key written independently of the library; BothEnds: for every k the first k positions hold the ceil(k/2) "
                 "largest and floor(k/2) smallest values; rules undefined for real vectors make argsort throw std::invalid_argument."),
    functions=["Spectra::argsort<sym::Real>", "Spectra::SortEigenvalue<sym::Real, Rule>", "Spectra::SortEigenvalue<std::complex<sym::Real>, Rule>",
               "Spectra::SortingTarget<T, Rule>::get (all specializations reached)", "std::sort (libstdc++, native)"],
    bounds={"quick": {"real_vector_length": "0..5 (+ prefix sort len 3 of 5)", "complex_vector_length": "0..4", "rules": "all 9 (real), 6 (complex)"},
            "thorough": {"real_vector_length": "0..6", "complex_vector_length": "0..5", "rules": "all 9 (real), 6 (complex)"}},
    outside=["vectors longer than the bound (introsort's heap-sort / insertion-sort split beyond 16 elements is not explored)",
             "rule rejection by the solvers' sort_ritzpair/retrieve_ritzpair is decided under C12"],
    assumptions=["complex magnitude |x| is the exact real sqrt(re^2+im^2) (std::abs(complex) specialised to avoid libstdc++'s scaling branches)"],
    policy=dict(events="violation", allow_cut=False),
    technique="symbolic execution of the real templates (Scalar = z3 term) with path enumeration; z3 decides every ordering obligation per path",
    level_text=("bounded symbolic verification: for every real vector of length <= 5 (6 thorough) and complex vector of length <= 4 (5), on every "
                "path of the real argsort/SortEigenvalue code the solver proves permutation + ordering + BothEnds interleaving; complete over "
                "values (ties included) within the length bound"),
    level_note="lengths beyond the bound are not covered; trusted: g++/libstdc++ std::sort executing natively, z3, the symx term builder",
)
