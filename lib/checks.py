"""Per-property check definitions: which harness cases run at which tier, the policy that turns raw solver
verdicts into violations, and the text that goes into the evidence."""
import json
import os
import re

import driver as D

SPECS = {}

ROUNDING = ("rounding: floating point is modelled as exact real arithmetic with definedness obligations; n*eps accuracy clauses, "
            "overflow/underflow and loss of orthogonality are outside the claim")


def std_run(ctx, spec):
    """Generic runner: compile the harnesses of this tier's jobs, run them, collect, finish."""
    jobs = [j for j in spec["jobs"](ctx.tier) if not getattr(ctx, "only", None) or re.search(ctx.only, j.get("label", j["pattern"]))]
    bins = D.compile_all(ctx, [dict(name=j["harness"], flags=j.get("flags", ()), sanitize=j.get("sanitize", False)) for j in jobs])
    binaries = {}
    for j in jobs:
        b = bins[(j["harness"], tuple(j.get("flags", ())), bool(j.get("sanitize", False)))]
        binaries[os.path.basename(b)] = b
        D.run_symx(ctx, b, j["pattern"], workers=j.get("workers", D.NCPU), deadline=j.get("deadline"), profile=j.get("profile"),
                   cap=j.get("cap"), max_paths=j.get("max_paths"), label=j.get("label"), env=j.get("env"))
    D.collect(ctx, spec.get("policy", {}))
    post = spec.get("post")
    if post:
        post(ctx, spec)
    return D.finish(ctx, spec, binaries)


def replay_file(ctx, spec, path):
    with open(path) as f:
        r = json.load(f)
    bins = D.compile_all(ctx, [dict(name=re.sub(r"(_san)?[0-9a-f]{6}$", "", r["harness"]), sanitize="_san" in r["harness"])])
    b = list(bins.values())[0]
    cand = dict(case=r["case"], name=r["obligation"], kind=r["kind"], model=r["model"], binary=os.path.basename(b), profile=r.get("profile", "double"),
                detail=r.get("detail", ""))
    ok, detail = D.replay_candidate(ctx, {os.path.basename(b): b}, cand)
    print("replay:", "REPRODUCED" if ok else "not reproduced", "-", detail)
    return 1 if ok else 0


# ------------------------------------------------------------------------------------------------
# C18: ordering primitive
def c18_jobs(tier):
    if tier == "quick":
        return [dict(harness="c18_sort", pattern=r"^argsort/real/.*/len[0-5]$|^argsort/real-prefix/", label="argsort real len<=5"),
                dict(harness="c18_sort", pattern=r"^sorteig/complex/.*/len[0-4]$", label="SortEigenvalue complex len<=4")]
    return [dict(harness="c18_sort", pattern=r"^argsort/real", label="argsort real len<=6", deadline=1500),
            dict(harness="c18_sort", pattern=r"^sorteig/complex/", label="SortEigenvalue complex len<=5", deadline=1500)]


SPECS["C18"] = dict(
    run=std_run, jobs=c18_jobs,
    explanation=("The real Spectra::argsort<Scalar> / SortEigenvalue<T,Rule> / SortingTarget templates are instantiated with a z3-backed scalar and "
                 "executed on fully symbolic value vectors; libstdc++'s std::sort runs natively and every key comparison is a fork decided by the "
                 "solver, so the explored paths partition ALL real (resp. complex) vectors of the given length, ties included (a tie lies on the "
                 "path whose conditions are its non-strict closure). On each path the solver proves: result is a permutation; consecutive keys are "
                 "ordered by a reference key written independently of the library; BothEnds: for every k the first k positions hold the ceil(k/2) "
                 "largest and floor(k/2) smallest values; rules undefined for real vectors make argsort throw std::invalid_argument."),
    functions=["Spectra::argsort<sym::Real>", "Spectra::SortEigenvalue<sym::Real, Rule>", "Spectra::SortEigenvalue<std::complex<sym::Real>, Rule>",
               "Spectra::SortingTarget<T, Rule>::get (all specializations reached)", "std::sort (libstdc++, native)"],
    bounds={"quick": {"real_vector_length": "0..5 (+ prefix sort len 3 of 5)", "complex_vector_length": "0..4", "rules": "all 9 (real), 6 (complex)"},
            "thorough": {"real_vector_length": "0..6", "complex_vector_length": "0..5", "rules": "all 9 (real), 6 (complex)"}},
    outside=["vectors longer than the bound (introsort's heap-sort / insertion-sort split beyond 16 elements is not explored)",
             "rule rejection by the solvers' sort_ritzpair/retrieve_ritzpair is decided under C12"],
    assumptions=["complex magnitude |x| is the exact real sqrt(re^2+im^2) (std::abs(complex) specialised to avoid libstdc++'s scaling branches)"],
    policy=dict(events="violation", allow_cut=False),
    technique="symbolic execution of the real templates (Scalar = z3 term) with path enumeration; z3 decides every ordering obligation per path",
    level_text=("bounded symbolic verification: for every real vector of length <= 5 (6 thorough) and complex vector of length <= 4 (5), on every "
                "path of the real argsort/SortEigenvalue code the solver proves permutation + ordering + BothEnds interleaving; complete over "
                "values (ties included) within the length bound"),
    level_note="lengths beyond the bound are not covered; trusted: g++/libstdc++ std::sort executing natively, z3, the symx term builder",
)


# ------------------------------------------------------------------------------------------------
# C08: shifted QR helpers
def c08_jobs(tier):
    full = {"VERIF_DEFLATED_OBLIGATIONS": "1", "VERIF_C08_FIRSTCOL": "1"}
    if tier == "quick":
        return [dict(harness="c08_rot", pattern=r"^rotation/|^dsqr/stable_", label="leaf kernels (double profile)", deadline=240),
                dict(harness="c08_refl", pattern=r".", label="compute_reflector with leaf contracts", deadline=120),
                dict(harness="c08_qr", pattern=r"^hess/n[23]/|^tridiag/n[23]/|^tridiag-exact-shift/n2", label="UpperHessenbergQR/TridiagQR n<=3", deadline=280),
                dict(harness="c08_dsqr", pattern=r"^dsqr/n3/zero|^dsqr/n4/zero02|^dsqr/n4/zero1", label="DoubleShiftQR deflated blocks", deadline=200)]
    return [dict(harness="c08_rot", pattern=r"^rotation/|^dsqr/stable_", label="leaf kernels (double)", deadline=600),
            dict(harness="c08_rot", pattern=r"^rotation/|^dsqr/stable_", label="leaf kernels (float)", profile="float", deadline=600),
            dict(harness="c08_rot", pattern=r"^rotation/|^dsqr/stable_", label="leaf kernels (long double)", profile="longdouble", deadline=600),
            dict(harness="c08_refl", pattern=r".", label="compute_reflector with leaf contracts", deadline=300),
            dict(harness="c08_qr", pattern=r"^hess/|^tridiag/n[234]/|^tridiag-exact-shift/", label="UpperHessenbergQR n<=5 / TridiagQR n<=4", deadline=2400, env=full,
                 cap=(20, 120)),
            dict(harness="c08_dsqr", pattern=r"^dsqr/n[34]/", label="DoubleShiftQR n<=4 incl. unreduced blocks", deadline=3000, env=full, cap=(20, 120))]


SPECS["C08"] = dict(
    run=std_run, jobs=c08_jobs,
    explanation=("Real code of UpperHessenbergQR, TridiagQR and DoubleShiftQR executed on fully symbolic Hessenberg / tridiagonal matrices and shifts "
                 "(entries below the sub-diagonal are independent junk symbols that must not influence any result). Compositional: (1) the leaf kernels "
                 "compute_rotation/stable_scaling, stable_norm3, stable_scaling(x1,x2,x3) are executed whole on symbolic inputs, all paths, against their "
                 "contract (c^2+s^2=1, r=cx-sy>=0, sx+cy=0, special cases exact; r^2=sum x_i^2; unit, parallel, same direction) with the Taylor branches "
                 "allowed a relative tolerance 1e-4*eps; (2) compute_reflector is executed with those leaves replaced by their contracts and proven to yield a unit "
                 "u with (I-2uu')x parallel to e1, nr as documented; (3) the class-level code (compute, matrix_R, matrix_QtHQ, apply_QY/QtY/YQ/YQt, "
                 "update_block, apply_PX/XP) is executed with the rotation / reflector replaced by that contract, and z3 proves entry by entry: Q'Q=I, R upper "
                 "triangular, QR=H-sI (after the documented deflation of negligible sub-diagonals), matrix_QtHQ = Q'HQ with Hessenberg / symmetric tridiagonal "
                 "shape, every apply method equals the explicit product, DoubleShiftQR: Q orthogonal, Q'HQ Hessenberg and equal to matrix_QtHQ, block splitting at zero "
                 "sub-diagonals, exact-eigenvalue shift deflates the last row (n=2; n=3 thorough)."),
    functions=["UpperHessenbergQR<S>::compute_rotation, stable_scaling, compute, matrix_R, matrix_QtHQ, apply_QY/QtY (vector+matrix), apply_YQ, apply_YQt",
               "TridiagQR<S>::compute, matrix_R, matrix_QtHQ", "DoubleShiftQR<S>::stable_norm3, stable_scaling, compute_reflector, update_block, apply_PX (both), apply_XP, "
               "compute, matrix_QtHQ, apply_QtY, apply_YQ"],
    bounds={"quick": {"UpperHessenbergQR": "n=2,3 (+ zero sub-diagonal patterns)", "TridiagQR": "n=2,3 (+ zero patterns), all deflation paths", "DoubleShiftQR": "n=3 and n=4 with at least one exact-zero "
                      "sub-diagonal (blocks of size 1-2); unreduced 3x3/4x4 blocks (Householder bulge chase) are thorough-tier only", "leaf kernels": "all paths, double thresholds",
                      "skipped": "result-deflation tolerance obligations and DoubleShiftQR first-column obligations (thorough only)"},
            "thorough": {"UpperHessenbergQR": "n<=5", "TridiagQR": "n<=4", "DoubleShiftQR": "n<=4 incl. unreduced", "leaf kernels": "float/double/long double thresholds"}},
    outside=[ROUNDING, "the underflow regime: reflector inputs with 0 < |x| < ~1e-200 (near_0 thresholds) are excluded by assumption", "n beyond the bound",
             "the Taylor branches are accepted with relative tolerance 1e-4*eps and callers assume the exact contract"],
    stubs=["class-level runs: compute_rotation := fresh (c,s,r) with c^2+s^2=1, r=cx-sy>=0, sx+cy=0 (exact special case when y is structurally 0)",
           "DoubleShiftQR class-level runs: compute_reflector := fresh unit u with x2=2u1(u.x), x3=2u2(u.x); nr by exact-zero tests",
           "compute_reflector run: stable_norm3, stable_scaling3, Eigen::numext::hypot := exact sqrt contracts"],
    assumptions=["exact real arithmetic", "Eigen::numext::hypot returns sqrt(x^2+y^2)"],
    policy=dict(events="violation", allow_cut=False),
    technique="symbolic execution of the real QR templates on symbolic matrices (contracts for leaf kernels, each checked on the real leaf); z3/cvc5 NRA verdict per matrix entry",
    level_text=("bounded symbolic verification in exact real arithmetic: all Hessenberg/tridiagonal matrices and shifts of size n<=3 (thorough: up to 5/4/4), every path of "
                "the real code; algebraic identities proven entry-wise by the SMT solver; rounding-level clauses are outside the claim"),
    level_note="compositional via kernel contracts; rounding, underflow thresholds and n above the bound not covered; trusted: g++, Eigen, z3/cvc5, symx",
)


# ------------------------------------------------------------------------------------------------
# C10: Bunch-Kaufman LDLT
def c10_jobs(tier):
    if tier == "quick":
        return [dict(harness="c10_bkldlt", pattern=r"^bk/n[12]/|^bk-lower-vs-upper/n[12]$|^bk-reuse|^wrapper/.*/n[12]$|^bk-complex/n[12]/", label="n<=2, all layouts, real+complex", deadline=200),
                dict(harness="c10_bkldlt", pattern=r"^bk/n3/(lower|upper)/colmajor/shift|^bk/n3/upper/rowmajor/shift", label="n=3 real", deadline=280)]
    return [dict(harness="c10_bkldlt", pattern=r"^bk/n[123]/|^bk-lower-vs-upper/n[123]$|^bk-reuse|^wrapper/|^bk-complex/n[12]/", label="n<=3 real, n<=2 complex, wrappers", deadline=1500),
            dict(harness="c10_bkldlt", pattern=r"^bk-complex/n3/", label="n=3 complex Hermitian", deadline=2400, cap=(20, 120)),
            dict(harness="c10_bkldlt", pattern=r"^bk/n4/lower/colmajor/shift", label="n=4 real", deadline=3000, cap=(20, 120))]


SPECS["C10"] = dict(
    run=std_run, jobs=c10_jobs,
    explanation=("Real BKLDLT<S> (compute, copy_data, permutate_mat, find_lambda/find_sigma, pivoting_1x1/2x2, interchange_rows, gaussian_elimination_1x1/2x2, "
                 "solve_left_2x2, solve_inplace, solve_inplace_2x2, compress_permutation) executed on a fully symbolic matrix: the designated triangle holds the "
                 "symmetric/Hermitian matrix, every entry of the other triangle is an independent junk symbol, shift and right-hand side symbolic. Every pivoting "
                 "decision is a fork decided by the solver, so the paths partition all matrices of that size. Per path z3 proves: info() is Successful or "
                 "NumericalIssue; Successful => (A_tri - sigma I) x = b entry-wise and no divisor can be zero; NumericalIssue => det(A - sigma I) = 0 (only exactly "
                 "singular matrices are refused); the solution mentions no junk symbol; lower and upper triangle of the same matrix give identical results; column- and "
                 "row-major input; solve_inplace on a segment; a reused object reports its own status; DenseSymShiftSolve::set_shift throws invalid_argument only for "
                 "singular matrices and its perform_op solves the shifted system."),
    functions=["Spectra::BKLDLT<sym::Real> and BKLDLT<std::complex<sym::Real>> (all members)", "Spectra::DenseSymShiftSolve<sym::Real, Lower|Upper>::set_shift, perform_op"],
    bounds={"quick": {"real": "n=1,2 all layouts; n=3 three layouts", "complex Hermitian": "n=1,2 all four layouts", "wrappers": "n=1,2"},
            "thorough": {"real": "n<=3 all layouts, n=4 lower/col-major", "complex Hermitian": "n<=3", "wrappers": "n<=3"}},
    outside=[ROUNDING, "the c*n*eps residual bound and the growth factor", "sizes above the bound"],
    assumptions=["exact real arithmetic"],
    policy=dict(events="violation", allow_cut=False),
    technique="symbolic execution of the real BKLDLT template on symbolic matrices, all pivoting paths; z3/cvc5 NRA verdict per residual entry and per singularity claim",
    level_text=("bounded symbolic verification in exact real arithmetic: every symmetric (Hermitian) matrix, shift and right-hand side of size n<=3 (thorough 4 / complex 3), "
                "every pivoting path of the real code; residual identities and the 'refused only if singular' claim proven by the SMT solver"),
    level_note="rounding and sizes above the bound not covered; trusted: g++, Eigen, z3/cvc5, symx",
)
