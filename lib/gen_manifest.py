#!/usr/bin/env python3
"""Regenerates /verif/MANIFEST.json from lib/checks.py (SPECS) and lib/manifest_extra.json."""
import json, os, sys
VERIF = os.path.dirname(os.path.dirname(os.path.abspath(__file__)))
sys.path.insert(0, os.path.join(VERIF, "lib"))
import checks
extra = json.load(open(os.path.join(VERIF, "lib", "manifest_extra.json")))
ids = [json.loads(l)["id"] for l in open(os.path.join(VERIF, "properties.jsonl"))]
man = {
    "version": 1,
    "setup_cmd": "make -C /verif -j16",
    "hooks": extra["hooks"],
    "engines": extra["engines"],
    "checks": [],
    "not_applicable": [],
    "notes": extra["notes"],
}
for pid in ids:
    s = checks.SPECS.get(pid)
    if s is None or s.get("disabled"):
        man["not_applicable"].append({"property_id": pid, "reason": extra["not_applicable"].get(pid, "check not built yet (work in progress)")})
        continue
    man["checks"].append({
        "property_id": pid,
        "quick_cmd": "bin/check %s --tier quick" % pid,
        "thorough_cmd": "bin/check %s --tier thorough" % pid,
        "evidence_file": "/verif/evidence/%s.json" % pid,
        "replay_cmd_template": "bin/check %s --replay {path}" % pid,
        "engine": s.get("engine", "symx"),
        "level_claimed": {"category": "other", "text": s["level_text"], "design_ref": s.get("design_ref", "DESIGN.md section 7, " + pid)},
        "level_note": s["level_note"],
        "technique": s["technique"],
    })
json.dump(man, open(os.path.join(VERIF, "MANIFEST.json"), "w"), indent=1)
print("checks:", [c["property_id"] for c in man["checks"]], "n/a:", [c["property_id"] for c in man["not_applicable"]])
